(* StackSound.v -- C13: kind soundness of the reference interpreter.  If a stack is well-kinded
   (kind_of = Some k) and the field's configurations have the shapes the layers expect, then every
   lookup at a coordinate of k_n components that succeeds returns exactly k_m components: no layer
   of a stack of any depth is ever handed a coordinate or a value of the wrong dimension. *)
From Coq Require Import ZArith List Bool Lia ZifyBool ZifyNat.
From Covfie Require Import Stack StackGlue StackGlueProofs StackProofs.
Import ListNotations.
Local Open Scope Z_scope.

Section Sound.
  Variable ops : sops.

  Definition dims_ok (n m : nat) (b : query) : Prop :=
    forall c tr v, length c = n -> b c = Some (tr, v) -> length v = m.

  Lemma prim_dims p d k : prim_kind p = Some k -> prim_shape p d = true -> dims_ok (k_n k) (k_m k) (prim_at ops p d).
  Proof.
    destruct p as [m t|n tc m tv|n t|n tc m tv]; destruct d as [len data|v0|]; cbn [prim_kind prim_shape prim_at]; try discriminate;
      intros K S c tr v Hc E.
    - destruct (is_float t && (0 <? m)%nat); [|discriminate]. injection K as <-. cbn [k_n k_m] in *.
      unfold array_at in E. destruct c as [|i [|? ?]]; try discriminate.
      destruct ((0 <=? i) && (i <? len)) eqn:R; [|discriminate]. injection E as <- <-.
      apply andb_prop in S. destruct S as [S1 S2].
      rewrite firstn_length, skipn_length. apply Nat.eqb_eq in S2. rewrite S2.
      assert (Z.to_nat i < Z.to_nat len)%nat by lia.
      assert ((Z.to_nat i + 1) * m <= Z.to_nat len * m)%nat by (apply Nat.mul_le_mono_r; lia). lia.
    - destruct ((0 <? n)%nat && (0 <? m)%nat); [|discriminate]. injection K as <-. cbn [k_n k_m] in *.
      unfold constant_at in E. injection E as <- <-. now apply Nat.eqb_eq.
    - destruct (0 <? n)%nat; [|discriminate]. injection K as <-. cbn [k_n k_m] in *.
      unfold identity_at in E. injection E as <- <-. exact Hc.
    - destruct ((0 <? n)%nat && (0 <? m)%nat); [|discriminate]. injection K as <-. cbn [k_n k_m] in *.
      unfold probe_at in E. injection E as <- <-. now rewrite map_length, seq_length.
  Qed.

  Lemma gather_dims (b : query) n m : dims_ok n m b -> forall cs tr vals,
    Forall (fun c => length c = n) cs -> gather b cs = Some (tr, vals) ->
    length vals = length cs /\ Forall (fun v => length v = m) vals.
  Proof.
    intros Hb. induction cs as [|c cs IH]; intros tr vals F E; cbn [gather] in E.
    - injection E as <- <-. split; [reflexivity|constructor].
    - apply Forall_cons_iff in F. destruct F as [Hc Fr]. destruct (b c) as [[t v]|] eqn:Eb; [|discriminate].
      destruct (gather b cs) as [[ts vs]|] eqn:Eg; [|discriminate]. injection E as <- <-.
      destruct (IH _ _ Fr eq_refl) as [I1 I2]. split; [cbn; now rewrite I1|].
      constructor; [exact (Hb _ _ _ Hc Eb)|exact I2].
  Qed.

  Lemma map3_len {A} (f : Z -> Z -> Z -> A) : forall a b c, length b = length a -> length c = length a -> length (map3 f a b c) = length a.
  Proof.
    induction a as [|x a IH]; intros [|y b] [|z c] Hb Hc; cbn [map3 length] in *; try discriminate; try reflexivity.
    f_equal. apply IH; congruence.
  Qed.

  Lemma rows_length n w m : length (rows n w m) = n.
  Proof. revert m. induction n as [|n IH]; intros m; cbn [rows length]; [reflexivity|now rewrite IH]. Qed.

  Lemma corner_len (f : nat * Z -> Z) (is_ : list Z) : length (map f (combine (seq 0 (length is_)) is_)) = length is_.
  Proof. rewrite map_length, combine_length, seq_length. lia. Qed.

  Lemma layer_dims l k0 k g (b : query) : layer_kind l k0 = Some k -> cfg_shape l k0 g = true ->
    dims_ok (k_n k0) (k_m k0) b -> dims_ok (k_n k) (k_m k) (layer_at ops l k0 g b).
  Proof.
    intros K S Hb c tr v Hc E.
    destruct l; destruct g as [s|lo hi|lo hi dflt|mm|]; cbn [cfg_shape] in S; try discriminate; cbn [layer_kind layer_at] in *.
    - (* strided *)
      destruct ((k_n k0 =? 1)%nat && negb (is_float tc) && (0 <? n)%nat) eqn:C; [|discriminate]. injection K as <-. cbn [k_n k_m] in *.
      unfold strided_at in E. destruct (in_boxb c s); [|discriminate].
      assert (H1 : k_n k0 = 1%nat) by (repeat (apply andb_prop in C; destruct C as [C ?]); lia).
      refine (Hb _ _ _ _ E). rewrite H1. reflexivity.
    - (* morton *)
      destruct ((k_n k0 =? 1)%nat && negb (is_float tc) && (0 <? n)%nat) eqn:C; [|discriminate]. injection K as <-. cbn [k_n k_m] in *.
      unfold morton_at in E. destruct (in_boxb c s); [|discriminate].
      assert (H1 : k_n k0 = 1%nat) by (repeat (apply andb_prop in C; destruct C as [C ?]); lia).
      refine (Hb _ _ _ _ E). rewrite H1. reflexivity.
    - (* hilbert *)
      destruct ((k_n k0 =? 1)%nat && negb (is_float tc)) eqn:C; [|discriminate]. injection K as <-. cbn [k_n k_m] in *.
      unfold hilbert_at in E. destruct c as [|x [|y [|? ?]]]; try discriminate. destruct (in_boxb [x; y] s); [|discriminate].
      assert (H1 : k_n k0 = 1%nat) by (repeat (apply andb_prop in C; destruct C as [C ?]); lia).
      refine (Hb _ _ _ _ E). rewrite H1. reflexivity.
    - (* clamp *)
      destruct (k_scalar k0); [discriminate|]. injection K as <-.
      apply andb_prop in S. destruct S as [S1 S2]. unfold clamp_at in E.
      refine (Hb _ _ _ _ E). rewrite map3_len; lia.
    - (* backup *)
      destruct (k_scalar k0); [discriminate|]. injection K as <-. cbn [k_n k_m] in *.
      apply andb_prop in S. destruct S as [S S3]. unfold backup_at in E.
      destruct (outside ops (k_tc k0) c lo hi); [|exact (Hb _ _ _ Hc E)]. injection E as <- <-. lia.
    - (* shuffle *)
      destruct (negb (k_scalar k0) && is_perm_of_range p (k_n k0)) eqn:C; [|discriminate]. injection K as <-.
      unfold shuffle_at in E. refine (Hb _ _ _ _ E). rewrite map_length.
      apply andb_prop in C. destruct C as [_ C]. unfold is_perm_of_range in C. apply andb_prop in C. destruct C as [C _]. lia.
    - (* affine *)
      destruct (negb (k_scalar k0) && is_float (k_tc k0)); [|discriminate]. injection K as <-.
      unfold affine_at in E. refine (Hb _ _ _ _ E). unfold affine_apply. rewrite map_length, rows_length. exact Hc.
    - (* cast *)
      injection K as <-. cbn [k_n k_m] in *. unfold cast_at in E.
      destruct (b c) as [[t0 v0]|] eqn:Eb; [|discriminate]. destruct (forallb _ v0); [|discriminate]. injection E as <- <-.
      rewrite map_length. exact (Hb _ _ _ Hc Eb).
    - (* deref *)
      injection K as <-. cbn [k_n k_m] in *. exact (Hb _ _ _ Hc E).
    - (* linear *)
      destruct (negb (k_scalar k0) && negb (is_float (k_tc k0)) && is_float tc && is_float (k_tv k0)); [|discriminate].
      injection K as <-. cbn [k_n k_m] in *. unfold linear_at in E. cbv zeta in E.
      destruct (negb (forallb (conv_defined ops tc (k_tc k0)) c)); [discriminate|].
      match type of E with match gather b ?cs with _ => _ end = _ => destruct (gather b cs) as [[t0 vals]|] eqn:Eg; [|discriminate] end.
      injection E as <- <-. rewrite map_length, seq_length.
      assert (F : Forall (fun c0 => length c0 = k_n k0) (map (if (length c <=? 3)%nat then corner_special (k_tc k0) (map (s_conv ops tc (k_tc k0)) c)
                                                           else corner_generic (k_tc k0) (map (s_conv ops tc (k_tc k0)) c)) (seq 0 (2 ^ length c)))).
      { apply Forall_forall. intros x Hx. apply in_map_iff in Hx. destruct Hx as [n0 [<- _]].
        destruct (length c <=? 3)%nat; unfold corner_special, corner_generic; rewrite corner_len, map_length; exact Hc. }
      destruct (gather_dims b _ _ Hb _ _ _ F Eg) as [G1 G2].
      rewrite map_length, seq_length in G1.
      destruct vals as [|v0 vals]; [cbn in G1; pose proof (Nat.pow_nonzero 2 (length c) ltac:(lia)); lia|].
      apply Forall_cons_iff in G2. destruct G2 as [G2 _]. exact G2.
    - (* nearest *)
      destruct (negb (k_scalar k0) && negb (is_float (k_tc k0)) && is_float tc); [|discriminate].
      injection K as <-. cbn [k_n k_m] in *. unfold nearest_at in E. destruct (forallb _ c); [|discriminate].
      refine (Hb _ _ _ _ E). now rewrite map_length.
  Qed.

  Theorem eval_kind_sound ls p : forall gs d k, kind_of_layers ls p = Some k -> shapes ls p gs d = true ->
    dims_ok (k_n k) (k_m k) (eval_layers ops ls p gs d).
  Proof.
    induction ls as [|l ls IH]; intros gs d k K S.
    - destruct gs; [|discriminate]. cbn [kind_of_layers shapes eval_layers] in *. now apply prim_dims.
    - destruct gs as [|g gs]; [discriminate|]. cbn [kind_of_layers shapes eval_layers] in *.
      destruct (kind_of_layers ls p) as [k0|] eqn:K0; [|discriminate].
      apply andb_prop in S. destruct S as [Sg Sr].
      apply (layer_dims l k0 k g _ K Sg). exact (IH gs d k0 eq_refl Sr).
  Qed.
End Sound.
