(* Properties_C16.v -- C16 (partial): concurrent lookups are race-free and deterministic.
   PROVED, in the interleaving model of Concurrency.v: for every schedule, any number of threads, if no
   thread writes a cell another thread accesses, each thread reads what it reads alone and the cells it
   touches end as it alone leaves them; readers only always see the initial memory.  Distinct in-range
   coordinates map to distinct cells (layout injectivity, C01), so writers to disjoint coordinate sets
   satisfy the premise.  Structural premise read from the code on every run (Gen_Purity): no static or
   thread-local mutable variable, no mutable member, no const_cast, every lookup const.
   NOT proved: the C++ / hardware memory model; ThreadSanitizer observes the explored runs (props/c16.py). *)
From Coq Require Import ZArith List Bool.
From Covfie Require Import Layout LayoutMem Concurrency.
From Covfie.gen Require Import Gen_Purity.
Import ListNotations.
Local Open Scope Z_scope.

Theorem C16_schedule_irrelevant : forall V (prog : nat -> list (access V)) m0 sched,
  race_free V prog -> Inv V prog m0 (run V prog (start V m0) sched).
Proof. exact schedule_irrelevant. Qed.

Theorem C16_every_thread_as_if_alone : forall V (prog : nat -> list (access V)) m0 sched,
  race_free V prog -> complete V prog (run V prog (start V m0) sched) ->
  forall t, log V (run V prog (start V m0) sched) t = snd (alone V m0 (prog t)) /\
            (forall i, touches V prog t i -> cmem V (run V prog (start V m0) sched) i = fst (alone V m0 (prog t)) i).
Proof. exact every_thread_as_if_alone. Qed.

Theorem C16_readers_only : forall V (prog : nat -> list (access V)) m0 sched,
  (forall t a, In a (prog t) -> is_write V a = false) -> complete V prog (run V prog (start V m0) sched) ->
  forall t, log V (run V prog (start V m0) sched) t = map (fun a => m0 (cell V a)) (prog t).
Proof. exact readers_only. Qed.

(* writers to distinct in-range coordinates write distinct cells, through any layout *)
Theorem C16_footprint_disjoint : forall (L : layout) c c', dom L c -> dom L c' -> c <> c' -> idx L c <> idx L c'.
Proof. exact (fun L c c' H H' Hne E => Hne (idx_inj L c c' H H' E)). Qed.

(* the structural premise, computed from the headers on this run *)
Theorem C16_no_shared_mutable_state : purity_ok = true.
Proof. reflexivity. Qed.

Print Assumptions C16_schedule_irrelevant.
Print Assumptions C16_readers_only.
