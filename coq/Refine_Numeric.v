(* Refine_Numeric.v -- the kernels GENERATED from utility/numeric.hpp equal the
   specification functions of Numeric.v, for every unsigned type T of a standard width. *)
From Coq Require Import ZArith Zpow_facts List Lia ZifyBool.
From Covfie Require Import CKernel CKernelFacts Numeric.
From Covfie.gen Require Import Gen_Numeric.
Import ListNotations.
Local Open Scope Z_scope.
Local Open Scope ck_scope.

(* unsigned types whose products of two values cannot overflow the promoted type:
   width <= 15 (promoted to int, product < 2^30) or width >= 32 (not promoted, arithmetic is
   modular).  uint8_t, uint32_t, uint64_t qualify; uint16_t does not: see ipow_u16_refuted. *)
Definition nice_unsigned (T : cty) : Prop :=
  csigned T = false /\ (1 <= cwidth T <= 15 \/ 32 <= cwidth T).
(* for round_pow2 only doubling happens, so 16 bits are fine too *)
Definition unsigned_std (T : cty) : Prop :=
  csigned T = false /\ (1 <= cwidth T <= 16 \/ 32 <= cwidth T).

Section Typed.
  Variable T : cty.
  Hypothesis Hs : csigned T = false.
  Let w := cwidth T.
  Hypothesis Hw : 1 <= w <= 16 \/ 32 <= w.

  Lemma w_pos : 1 <= w. Proof. lia. Qed.

  Lemma narrow_bound z : w <= 16 -> 0 <= z < 2 ^ w -> 0 <= z < 2 ^ 16.
  Proof.
    intros Hn Hz. split; [lia|]. apply Z.lt_le_trans with (2 ^ w); [lia|].
    apply Z.pow_le_mono_r; lia.
  Qed.

  Lemma cast_T_1 : cast T (lit I32 1) = lit T 1.
  Proof.
    unfold cast; cbn [val lit]. rewrite wrap_small_u; [reflexivity|assumption|].
    fold w. split; [lia|]. apply Z.lt_le_trans with (2 ^ 1); [reflexivity|].
    apply Z.pow_le_mono_r; lia.
  Qed.

  Lemma cast_T_small z : 0 <= z < 2 ^ w -> cast T (lit T z) = lit T z.
  Proof. intros Hz. unfold cast; cbn [val lit]. now rewrite wrap_small_u. Qed.

  Lemma cmp_T o a b : 0 <= a < 2 ^ w -> 0 <= b < 2 ^ w ->
    cmp o (lit T a) (lit T b) =
    Ok (lit CBool (if match o with
                      | Lt => a <? b | Le => a <=? b | Gt => b <? a | Ge => b <=? a
                      | Eq => a =? b | Ne => negb (a =? b) end then 1 else 0)).
  Proof.
    intros Ha Hb. unfold cmp. cbn [ty lit]. destruct Hw as [Hn|Hwide].
    - rewrite common_self_narrow by (fold w; lia). unfold cast; cbn [val lit].
      pose proof (narrow_bound a ltac:(lia) Ha). pose proof (narrow_bound b ltac:(lia) Hb).
      rewrite !wrap_I32_small by (change (2 ^ 16) with 65536 in *; change (2 ^ 31) with 2147483648; lia).
      reflexivity.
    - rewrite common_self_wide by (fold w; lia). unfold cast; cbn [val lit].
      rewrite !wrap_small_u by assumption. reflexivity.
  Qed.

  (* j *= 2 : T * int, converted back to T *)
  Lemma mul2_T a : 0 <= a < 2 ^ w ->
    exists t, arith Mul (lit T a) (lit I32 2) = Ok t /\ cast T t = lit T ((a * 2) mod 2 ^ w).
  Proof.
    intros Ha. unfold arith. cbn [ty lit]. destruct Hw as [Hn|Hwide].
    - rewrite common_narrow_i32 by (fold w; lia). unfold cast; cbn [val lit].
      pose proof (narrow_bound a ltac:(lia) Ha). change (2 ^ 16) with 65536 in *.
      rewrite !wrap_I32_small by (change (2 ^ 31) with 2147483648; lia).
      change (csigned I32) with true. cbv iota.
      assert (Hf : fits I32 (a * 2) = true).
      { unfold fits, cmin, cmax. cbn [csigned cwidth I32]. change (2 ^ (32 - 1)) with 2147483648. lia. }
      rewrite Hf. eexists; split; [reflexivity|]. cbn [val lit]. now rewrite wrap_u.
    - rewrite common_u_i32_wide by (fold w; lia || assumption). unfold cast; cbn [val lit].
      rewrite Hs. rewrite (wrap_small_u T a) by assumption.
      rewrite (wrap_small_u T 2).
      2: assumption.
      2: { fold w. split; [lia|]. apply Z.lt_le_trans with (2 ^ 32); [reflexivity|]. apply Z.pow_le_mono_r; lia. }
      eexists; split; [reflexivity|]. cbn [val lit]. rewrite !wrap_u by assumption. fold w.
      now rewrite Z.mod_mod by (pose proof (pow2_pos w); lia).
  Qed.
End Typed.

(* ------------------------------------------------------------------ round_pow2 *)
Theorem round_pow2_refines T i (fuel : nat) :
  unsigned_std T -> 1 <= i <= 2 ^ (cwidth T - 1) -> (Z.to_nat (cwidth T) < fuel)%nat ->
  gen_round_pow2 T fuel (lit T i) = Ok (lit T (pow2_ceil i)).
Proof.
  intros (Hs & Hw) Hi Hf. set (w := cwidth T) in *. unfold gen_round_pow2.
  assert (Hw1 : 1 <= w) by lia.
  assert (Hi2 : 0 <= i < 2 ^ w).
  { split; [lia|]. apply Z.le_lt_trans with (2 ^ (w - 1)); [lia|]. apply Z.pow_lt_mono_r; lia. }
  rewrite (cast_T_1 T Hs Hw).
  pose (I := fun j : tv => exists k, 0 <= k < w /\ j = lit T (2 ^ k) /\ (k = 0 \/ 2 ^ (k - 1) < i)).
  pose (m := fun j : tv => Z.to_nat (w - Z.log2 (val j))).
  edestruct (while_inv I m) as (j & Hrun & (k & Hk & -> & Hmin) & Hexit); cycle 3.
  - rewrite Hrun. cbn [bind]. f_equal. f_equal.
    assert (Hp : 0 <= 2 ^ k < 2 ^ w) by (split; [lia| apply Z.pow_lt_mono_r; lia]).
    cbv beta in Hexit. rewrite (cmp_T T Hs Hw) in Hexit by assumption. cbn [bind] in Hexit.
    rewrite truthy_bool in Hexit. injection Hexit as Hexit.
    symmetry. apply pow2_ceil_unique; lia.
  - (* one iteration *)
    intros j (k & Hk & -> & Hmin).
    assert (Hp : 0 <= 2 ^ k < 2 ^ w) by (split; [lia| apply Z.pow_lt_mono_r; lia]).
    cbv beta. rewrite (cmp_T T Hs Hw) by assumption. cbn [bind]. rewrite truthy_bool.
    eexists; split; [reflexivity|]. intros E.
    assert (Hk1 : k + 1 < w).
    { destruct (Z.eq_dec (k + 1) w) as [Heq|]; [|lia]. exfalso.
      assert (2 ^ (w - 1) = 2 ^ k) by (f_equal; lia). lia. }
    assert (Hp1 : 0 <= 2 ^ (k + 1) < 2 ^ w) by (split; [lia| apply Z.pow_lt_mono_r; lia]).
    destruct (mul2_T T Hs Hw (2 ^ k) Hp) as (t & Ht & Hc). rewrite Ht. cbn [bind]. rewrite Hc.
    fold w. replace (2 ^ k * 2) with (2 ^ (k + 1)) by (rewrite Z.pow_add_r; lia).
    rewrite Z.mod_small by lia.
    eexists; split; [reflexivity|]. split.
    + exists (k + 1). split; [lia|]. split; [reflexivity|]. right.
      replace (k + 1 - 1) with k by lia. lia.
    + unfold m; cbn [val lit]. rewrite !Z.log2_pow2 by lia. lia.
  - exists 0. split; [lia|]. split; [reflexivity|]. left; reflexivity.
  - unfold m; cbn [val lit]. change (Z.log2 1) with 0. lia.
Qed.

(* i = 0 : the loop body never runs *)
Theorem round_pow2_zero T (fuel : nat) :
  unsigned_std T -> (0 < fuel)%nat -> gen_round_pow2 T fuel (lit T 0) = Ok (lit T 1).
Proof.
  intros (Hs & Hw) Hf. unfold gen_round_pow2. rewrite (cast_T_1 T Hs Hw).
  destruct fuel as [|fuel]; [lia|]. cbn [while_].
  assert (H2 : 1 < 2 ^ cwidth T).
  { apply Z.lt_le_trans with (2 ^ 1); [reflexivity|]. apply Z.pow_le_mono_r; lia. }
  rewrite (cmp_T T Hs Hw) by lia. cbn [bind]. rewrite truthy_bool. reflexivity.
Qed.

(* above 2^(w-1) the doubling wraps to 0 and the loop never ends: the stated domain is tight.
   (Never executed against the real code: it would hang.) *)
Theorem round_pow2_diverges T i :
  unsigned_std T -> 2 ^ (cwidth T - 1) < i < 2 ^ cwidth T ->
  forall fuel, gen_round_pow2 T fuel (lit T i) = OutOfFuel.
Proof.
  intros (Hs & Hw) Hi fuel. set (w := cwidth T) in *. unfold gen_round_pow2.
  rewrite (cast_T_1 T Hs Hw).
  assert (Hw1 : 1 <= w) by lia.
  pose (I := fun j : tv => j = lit T 0 \/ exists k, 0 <= k < w /\ j = lit T (2 ^ k)).
  rewrite (while_diverges I); [reflexivity| |].
  - intros j [->|(k & Hk & ->)].
    + assert (H0 : 0 <= 0 < 2 ^ w) by (pose proof (pow2_pos w); lia).
      rewrite (cmp_T T Hs Hw) by (fold w; lia). cbn [bind]. rewrite truthy_bool.
      destruct (0 <? i) eqn:E; [|lia]. split; [reflexivity|].
      destruct (mul2_T T Hs Hw 0 H0) as (t & Ht & Hc). rewrite Ht. cbn [bind]. rewrite Hc.
      fold w. rewrite Z.mod_0_l by lia. eexists; split; [reflexivity|]. now left.
    + assert (Hp : 0 <= 2 ^ k < 2 ^ w) by (split; [lia| apply Z.pow_lt_mono_r; lia]).
      rewrite (cmp_T T Hs Hw) by (fold w; lia). cbn [bind]. rewrite truthy_bool.
      assert (2 ^ k <= 2 ^ (w - 1)) by (apply Z.pow_le_mono_r; lia).
      destruct (2 ^ k <? i) eqn:E; [|lia]. split; [reflexivity|].
      destruct (mul2_T T Hs Hw (2 ^ k) Hp) as (t & Ht & Hc). rewrite Ht. cbn [bind]. rewrite Hc.
      fold w. eexists; split; [reflexivity|].
      replace (2 ^ k * 2) with (2 ^ (k + 1)) by (rewrite Z.pow_add_r; lia).
      destruct (Z.eq_dec (k + 1) w) as [Heq|Hne].
      * left. rewrite Heq, Z.mod_same by lia. reflexivity.
      * right. exists (k + 1). split; [lia|]. rewrite Z.mod_small; [reflexivity|].
        split; [lia|]. apply Z.pow_lt_mono_r; lia.
  - right. exists 0. split; [lia|reflexivity].
Qed.

(* ------------------------------------------------------------------ ipow *)
Section TypedPow.
  Variable T : cty.
  Hypothesis Hs : csigned T = false.
  Let w := cwidth T.
  Hypothesis Hw : 1 <= w <= 15 \/ 32 <= w.

  Lemma Hw16 : 1 <= w <= 16 \/ 32 <= w. Proof. lia. Qed.

  Lemma narrow15 z : w <= 15 -> 0 <= z < 2 ^ w -> 0 <= z < 2 ^ 15.
  Proof.
    intros Hn Hz. split; [lia|]. apply Z.lt_le_trans with (2 ^ w); [lia|].
    apply Z.pow_le_mono_r; lia.
  Qed.

  (* r *= i and i *= i : T * T converted back to T *)
  Lemma mul_T a b : 0 <= a < 2 ^ w -> 0 <= b < 2 ^ w ->
    exists t, arith Mul (lit T a) (lit T b) = Ok t /\ cast T t = lit T ((a * b) mod 2 ^ w).
  Proof.
    intros Ha Hb. unfold arith. cbn [ty lit]. destruct Hw as [Hn|Hwide].
    - rewrite common_self_narrow by (fold w; lia). unfold cast; cbn [val lit].
      pose proof (narrow15 a ltac:(lia) Ha). pose proof (narrow15 b ltac:(lia) Hb).
      change (2 ^ 15) with 32768 in *.
      rewrite (wrap_I32_small a), (wrap_I32_small b) by (change (2 ^ 31) with 2147483648; lia).
      change (csigned I32) with true. cbv iota.
      assert (Hf : fits I32 (a * b) = true).
      { unfold fits, cmin, cmax. cbn [csigned cwidth I32]. change (2 ^ (32 - 1)) with 2147483648. nia. }
      rewrite Hf. eexists; split; [reflexivity|]. cbn [val lit]. now rewrite wrap_u.
    - rewrite common_self_wide by (fold w; lia). unfold cast; cbn [val lit].
      rewrite Hs. rewrite (wrap_small_u T a), (wrap_small_u T b) by assumption.
      eexists; split; [reflexivity|]. cbn [val lit]. rewrite !wrap_u by assumption. fold w.
      now rewrite Z.mod_mod by (pose proof (pow2_pos w); lia).
  Qed.

  (* p & 1 : T & int *)
  Lemma and1_T p : 0 <= p < 2 ^ w ->
    exists t, arith And (lit T p) (lit I32 1) = Ok t /\ truthy t = (p mod 2 =? 1).
  Proof.
    intros Hp. unfold arith. cbn [ty lit].
    assert (Hl : Z.land p 1 = p mod 2) by (change 1 with (Z.ones 1); rewrite Z.land_ones by lia; reflexivity).
    assert (Hm : 0 <= p mod 2 < 2) by (apply Z.mod_pos_bound; lia).
    destruct Hw as [Hn|Hwide].
    - rewrite common_narrow_i32 by (fold w; lia). unfold cast; cbn [val lit].
      pose proof (narrow15 p ltac:(lia) Hp). change (2 ^ 15) with 32768 in *.
      rewrite (wrap_I32_small p), (wrap_I32_small 1) by (change (2 ^ 31) with 2147483648; lia).
      rewrite Hl. rewrite wrap_I32_small by (change (2 ^ 31) with 2147483648; lia).
      eexists; split; [reflexivity|]. unfold truthy; cbn [val lit]. lia.
    - rewrite common_u_i32_wide by (fold w; lia || assumption). unfold cast; cbn [val lit].
      rewrite (wrap_small_u T p) by assumption.
      rewrite (wrap_small_u T 1).
      2: assumption.
      2: { fold w. split; [lia|]. apply Z.lt_le_trans with (2 ^ 32); [reflexivity|]. apply Z.pow_le_mono_r; lia. }
      rewrite Hl. rewrite wrap_small_u.
      2: assumption.
      2: { fold w. split; [lia|]. apply Z.lt_le_trans with (2 ^ 32); [lia|]. apply Z.pow_le_mono_r; lia. }
      eexists; split; [reflexivity|]. unfold truthy; cbn [val lit]. lia.
  Qed.

  (* p >>= 1 *)
  Lemma shr1_T p : 0 <= p < 2 ^ w ->
    exists t, shr (lit T p) (lit I32 1) = Ok t /\ cast T t = lit T (p / 2).
  Proof.
    intros Hp. unfold shr. cbn [ty lit]. change (promote I32) with I32.
    assert (Hc1 : val (cast I32 (lit I32 1)) = 1) by reflexivity. rewrite Hc1.
    assert (Hh : 0 <= p / 2 < 2 ^ w).
    { split; [apply Z.div_pos; lia|]. apply Z.le_lt_trans with p; [|lia]. apply Z.div_le_upper_bound; lia. }
    destruct Hw as [Hn|Hwide].
    - rewrite promote_narrow by (fold w; lia). unfold cast at 1; cbn [val lit].
      pose proof (narrow15 p ltac:(lia) Hp). change (2 ^ 15) with 32768 in *.
      rewrite wrap_I32_small by (change (2 ^ 31) with 2147483648; lia).
      change (cwidth I32) with 32. cbn [Z.ltb Z.leb Z.compare orb].
      eexists; split; [reflexivity|]. unfold cast; cbn [val lit].
      rewrite Z.shiftr_div_pow2 by lia. change (2 ^ 1) with 2. now rewrite wrap_small_u.
    - rewrite promote_wide by (fold w; lia). unfold cast at 1; cbn [val lit].
      rewrite (wrap_small_u T p) by assumption. fold w.
      destruct (1 <? 0) eqn:E1; [lia|]. destruct (w <=? 1) eqn:E2; [lia|]. cbn [orb].
      eexists; split; [reflexivity|]. unfold cast; cbn [val lit].
      rewrite Z.shiftr_div_pow2 by lia. change (2 ^ 1) with 2. now rewrite wrap_small_u.
  Qed.
End TypedPow.

Theorem ipow_refines T b e (fuel : nat) :
  nice_unsigned T -> 0 <= b < 2 ^ cwidth T -> 0 <= e < 2 ^ cwidth T ->
  (Z.to_nat (cwidth T) < fuel)%nat ->
  gen_ipow T fuel (lit T b) (lit T e) = Ok (lit T (b ^ e mod 2 ^ cwidth T)).
Proof.
  intros (Hs & Hw) Hb He Hf. set (w := cwidth T) in *. unfold gen_ipow.
  assert (Hw16 : 1 <= w <= 16 \/ 32 <= w) by lia.
  assert (Hmpos : 0 < 2 ^ w) by (apply pow2_pos; lia).
  rewrite (cast_T_1 T Hs Hw16).
  pose (I := fun st : tv * tv * tv => let '(p, r, i) := st in
     exists pz rz iz, p = lit T pz /\ r = lit T rz /\ i = lit T iz /\
       0 <= pz < 2 ^ w /\ 0 <= rz < 2 ^ w /\ 0 <= iz < 2 ^ w /\
       (rz * iz ^ pz) mod 2 ^ w = b ^ e mod 2 ^ w).
  pose (m := fun st : tv * tv * tv => let '(p, r, i) := st in Z.to_nat (bitlen (val p))).
  edestruct (while_inv I m) as (st & Hrun & HI & Hexit); cycle 3.
  - rewrite Hrun. cbn [bind]. destruct st as [[p r] i].
    destruct HI as (pz & rz & iz & -> & -> & -> & Hp & Hr & Hi & Hinv).
    injection Hexit as Hexit. unfold truthy in Hexit; cbn [val lit] in Hexit.
    assert (pz = 0) by lia. subst pz. rewrite Z.pow_0_r, Z.mul_1_r in Hinv.
    rewrite Z.mod_small in Hinv by assumption. now rewrite Hinv.
  - intros [[p r] i] (pz & rz & iz & -> & -> & -> & Hp & Hr & Hi & Hinv).
    eexists; split; [reflexivity|]. intros Htr. unfold truthy in Htr; cbn [val lit] in Htr.
    assert (Hp0 : 0 < pz) by lia.
    destruct (and1_T T Hs Hw pz Hp) as (t1 & Ht1 & Htr1). rewrite Ht1. cbn [bind]. rewrite Htr1.
    destruct (mul_T T Hs Hw iz iz Hi Hi) as (t3 & Ht3 & Hc3).
    destruct (shr1_T T Hs Hw pz Hp) as (t4 & Ht4 & Hc4).
    assert (Hh : 0 <= pz / 2 < 2 ^ w).
    { split; [apply Z.div_pos; lia|]. apply Z.le_lt_trans with pz; [|lia]. apply Z.div_le_upper_bound; lia. }
    assert (Hi2 : 0 <= (iz * iz) mod 2 ^ w < 2 ^ w) by (apply Z.mod_pos_bound; lia).
    assert (Hmeas : (Z.to_nat (bitlen (pz / 2)) < Z.to_nat (bitlen pz))%nat).
    { rewrite bitlen_half by lia. pose proof (bitlen_nonneg (pz / 2)). rewrite bitlen_half in H by lia. lia. }
    destruct (pz mod 2 =? 1) eqn:Eodd.
    + destruct (mul_T T Hs Hw rz iz Hr Hi) as (t2 & Ht2 & Hc2).
      rewrite Ht2. cbn [bind]. rewrite Hc2. cbn [bind]. rewrite Ht3. cbn [bind]. rewrite Hc3.
      rewrite Ht4. cbn [bind]. rewrite Hc4.
      eexists; split; [reflexivity|]. split.
      * exists (pz / 2), ((rz * iz) mod 2 ^ w), ((iz * iz) mod 2 ^ w).
        repeat (split; [reflexivity || assumption || (apply Z.mod_pos_bound; lia)|]).
        rewrite <- Hinv. rewrite (pow_step_odd iz pz) by lia.
        rewrite Z.mul_mod_idemp_l by lia.
        rewrite <- Z.mul_mod_idemp_r by lia. rewrite <- Zpower_mod by lia.
        rewrite Z.mul_mod_idemp_r by lia. f_equal. ring.
      * unfold m; cbn [val lit]. exact Hmeas.
    + cbn [bind]. rewrite Ht3. cbn [bind]. rewrite Hc3. rewrite Ht4. cbn [bind]. rewrite Hc4.
      eexists; split; [reflexivity|]. split.
      * exists (pz / 2), rz, ((iz * iz) mod 2 ^ w).
        repeat (split; [reflexivity || assumption || (apply Z.mod_pos_bound; lia)|]).
        rewrite <- Hinv. assert (Hev : pz mod 2 = 0) by (pose proof (Z.mod_pos_bound pz 2); lia).
        rewrite (pow_step_even iz pz) by lia.
        rewrite <- Z.mul_mod_idemp_r by lia. rewrite <- Zpower_mod by lia.
        rewrite Z.mul_mod_idemp_r by lia. reflexivity.
      * unfold m; cbn [val lit]. exact Hmeas.
  - exists e, 1, b. repeat (split; [reflexivity || assumption || lia|]).
    assert (1 < 2 ^ w) by (apply Z.lt_le_trans with (2 ^ 1); [reflexivity|apply Z.pow_le_mono_r; lia]).
    split; [lia|]. split; [assumption|]. now rewrite Z.mul_1_l.
  - unfold m; cbn [val lit]. pose proof (bitlen_bound e w ltac:(lia) He). pose proof (bitlen_nonneg e). lia.
Qed.

(* uint16_t: both operands are promoted to int and 65535 * 65535 overflows it.  By the letter
   of the standard this is undefined behaviour although every compiler here produces the
   modular value (finding D11). *)
Theorem ipow_u16_refuted : gen_ipow U16 20 (lit U16 65535) (lit U16 2) = UB SignedOverflow.
Proof. vm_compute. reflexivity. Qed.

(* non-vacuity: concrete instances, evaluated on the generated code *)
Example round_pow2_u64_513 : gen_round_pow2 U64 65 (lit U64 513) = Ok (lit U64 1024).
Proof. vm_compute. reflexivity. Qed.
Example round_pow2_u8_128 : gen_round_pow2 U8 9 (lit U8 128) = Ok (lit U8 128).
Proof. vm_compute. reflexivity. Qed.
Example ipow_u64_3_40 : gen_ipow U64 65 (lit U64 3) (lit U64 40) = Ok (lit U64 12157665459056928801).
Proof. vm_compute. reflexivity. Qed.
Example ipow_u8_wraps : gen_ipow U8 9 (lit U8 3) (lit U8 7) = Ok (lit U8 (2187 mod 256)).
Proof. vm_compute. reflexivity. Qed.
