(* ClampAbove.v -- C10, "clamp placed above an interpolator": clamp< linear< strided< array > > > with a
   floating-point box 0 <= lo_k <= hi_k < extent_k - 1 (the documented domain of the interpolator).
   For EVERY coordinate that is not NaN -- infinities and the extremes of the type included -- the lookup
   is defined and each of the 2^N storage cells the interpolator reads lies inside the storage.

   Float side (Flocq): std::clamp with the IEEE order returns a finite value in [lo, hi] for every
   non-NaN argument; truncation of a finite x with 0 <= x < s - 1 is an integer i with 0 <= i and i + 1 < s. *)
From Coq Require Import ZArith Reals Lia Lra Bool List.
From Flocq Require Import Core.Core IEEE754.BinarySingleNaN IEEE754.Binary IEEE754.Bits.
From Covfie Require Import Layout Stack StackProofs FloatOps StackFloat StackSafe.
Import ListNotations.
Local Open Scope Z_scope.

Section Fmt.
  Variable prec emax : Z.
  Context (Hp : FLX.Prec_gt_0 prec) (Hm : Prec_lt_emax prec emax).
  Notation bf := (binary_float prec emax).
  Definition blt (a b : bf) : bool := match Bcompare prec emax a b with Some Lt => true | _ => false end.
  Definition bclamp (v lo hi : bf) : bf := if blt v lo then lo else if blt hi v then hi else v.

  Lemma blt_finite (a b : bf) : is_finite prec emax a = true -> is_finite prec emax b = true ->
    blt a b = true <-> (B2R prec emax a < B2R prec emax b)%R.
  Proof.
    intros Fa Fb. unfold blt. rewrite (Bcompare_correct prec emax a b Fa Fb).
    destruct (Rcompare_spec (B2R prec emax a) (B2R prec emax b)); split; intros; try discriminate; try reflexivity; lra.
  Qed.

  Lemma bclamp_range (v lo hi : bf) : is_nan prec emax v = false ->
    is_finite prec emax lo = true -> is_finite prec emax hi = true -> (B2R prec emax lo <= B2R prec emax hi)%R ->
    is_finite prec emax (bclamp v lo hi) = true /\
    (B2R prec emax lo <= B2R prec emax (bclamp v lo hi) <= B2R prec emax hi)%R.
  Proof.
    intros Nv Fl Fh Hle. unfold bclamp.
    destruct (is_finite prec emax v) eqn:Fv.
    - destruct (blt v lo) eqn:E1.
      + split; [exact Fl|lra].
      + assert (~ (B2R prec emax v < B2R prec emax lo)%R) by (intros C; apply (blt_finite v lo Fv Fl) in C; congruence).
        destruct (blt hi v) eqn:E2.
        * split; [exact Fh|lra].
        * assert (~ (B2R prec emax hi < B2R prec emax v)%R) by (intros C; apply (blt_finite hi v Fh Fv) in C; congruence).
          split; [exact Fv|lra].
    - (* an infinity: -inf is below lo, +inf is above hi *)
      destruct v as [s|s|s pl Hpl|s mv ev Hv]; try discriminate.
      destruct s.
      + assert (E : blt (B754_infinity prec emax true) lo = true).
        { unfold blt, Bcompare. destruct lo; try discriminate; reflexivity. }
        rewrite E. split; [exact Fl|lra].
      + assert (E : blt (B754_infinity prec emax false) lo = false).
        { unfold blt, Bcompare. destruct lo; try discriminate; reflexivity. }
        assert (E' : blt hi (B754_infinity prec emax false) = true).
        { unfold blt, Bcompare. destruct hi; try discriminate; reflexivity. }
        rewrite E, E'. split; [exact Fh|lra].
  Qed.

  Lemma btrunc_range (x : bf) (s : Z) : (0 <= B2R prec emax x < IZR s - 1)%R ->
    0 <= Btrunc prec emax x /\ Btrunc prec emax x + 1 < s.
  Proof.
    intros [H0 H1]. pose proof (Btrunc_correct prec emax Hm x) as C. rewrite round_FIX_IZR in C.
    apply eq_IZR in C. rewrite C. rewrite Ztrunc_floor by exact H0.
    split.
    - apply Zfloor_lub. exact H0.
    - pose proof (Zfloor_lb (B2R prec emax x)) as L.
      assert (IZR (Zfloor (B2R prec emax x)) < IZR s - 1)%R by lra.
      assert (IZR (Zfloor (B2R prec emax x) + 1) < IZR s)%R by (rewrite plus_IZR; lra).
      now apply lt_IZR.
  Qed.
End Fmt.

(* ---- on bit patterns ---- *)
Definition notnan (t : sty) (x : Z) : Prop :=
  match t with F32 => is_nan 24 128 (of32 x) = false | F64 => is_nan 53 1024 (of64 x) = false | _ => True end.
Definition fval (t : sty) (x : Z) : R :=
  match t with F32 => B2R 24 128 (of32 x) | F64 => B2R 53 1024 (of64 x) | _ => 0%R end.
Definition ffin (t : sty) (x : Z) : Prop := finite t x = true.
Definition isfl (t : sty) : Prop := t = F32 \/ t = F64.
(* a clamped coordinate component the interpolator may be given on an axis of extent s *)
Definition inner (t : sty) (x s : Z) : Prop := ffin t x /\ (0 <= fval t x < IZR s - 1)%R.

Lemma clamp1_float t v lo hi : isfl t -> notnan t v -> ffin t lo -> ffin t hi -> (fval t lo <= fval t hi)%R ->
  ffin t (clamp1 flocq_ops t v lo hi) /\ (fval t lo <= fval t (clamp1 flocq_ops t v lo hi) <= fval t hi)%R.
Proof.
  intros [->| ->] Nv Fl Fh Hle; unfold clamp1; cbn [s_lt flocq_ops lt]; unfold ffin, finite, fval in *.
  - pose proof (bclamp_range 24 128 (of32 v) (of32 lo) (of32 hi) Nv Fl Fh Hle) as R.
    unfold bclamp, blt, b32_compare in *.
    destruct (Bcompare 24 128 (of32 v) (of32 lo)) as [[| |]|]; try exact R;
      destruct (Bcompare 24 128 (of32 hi) (of32 v)) as [[| |]|]; exact R.
  - pose proof (bclamp_range 53 1024 (of64 v) (of64 lo) (of64 hi) Nv Fl Fh Hle) as R.
    unfold bclamp, blt, b64_compare in *.
    destruct (Bcompare 53 1024 (of64 v) (of64 lo)) as [[| |]|]; try exact R;
      destruct (Bcompare 53 1024 (of64 hi) (of64 v)) as [[| |]|]; exact R.
Qed.

Lemma wrap_int_sty t z : wrap_int t z = wrap_sty t z.
Proof. destruct t; reflexivity. Qed.

Section Above.
  Variables (tcf tidx : sty) (sizes lo hi : list Z) (m : nat) (data : list Z).
  Hypothesis Hf : isfl tcf.
  Hypothesis Hi : is_float tidx = false.
  Hypothesis Hlo : length lo = length sizes.
  Hypothesis Hhi : length hi = length sizes.
  (* the box: finite bounds with 0 <= lo_k <= hi_k < extent_k - 1 *)
  Hypothesis Box : Forall2 (fun '(l, h) s => ffin tcf l /\ ffin tcf h /\ (0 <= fval tcf l <= fval tcf h)%R /\ (fval tcf h < IZR s - 1)%R)
                           (combine lo hi) sizes.
  (* the extents and the storage are addressable by the index type *)
  Hypothesis Hidx : forall s z, In s sizes -> 0 <= z < s -> sty_range tidx z = true /\ wrap_sty tidx z = z.
  Hypothesis Haddr : forall z, 0 <= z < zprod sizes -> wrap_sty tidx z = z.

  Notation store := (storage sizes m data).
  Definition interpolated (tv : sty) : query := linear_at flocq_ops tcf tidx tv (strided_at tidx sizes store).

  Lemma clamped_inner : forall c lo' hi' sizes', length c = length sizes' -> length lo' = length sizes' -> length hi' = length sizes' ->
    Forall (notnan tcf) c ->
    Forall2 (fun '(l, h) s => ffin tcf l /\ ffin tcf h /\ (0 <= fval tcf l <= fval tcf h)%R /\ (fval tcf h < IZR s - 1)%R) (combine lo' hi') sizes' ->
    Forall2 (inner tcf) (map3 (clamp1 flocq_ops tcf) c lo' hi') sizes'.
  Proof.
    induction c as [|x c IH]; intros [|l lo'] [|h hi'] [|s sizes'] Hc Hl Hh Hn HB; cbn [length] in *; try lia; cbn [map3].
    - constructor.
    - cbn [combine] in HB. inversion HB as [|? ? ? ? P HB']; subst. cbv beta iota in P. destruct P as [Fl [Fh [[L0 Lh] Hs]]]. inversion Hn as [|? ? Nx Hn']; subst.
      destruct (clamp1_float tcf x l h Hf Nx Fl Fh Lh) as [Fc [C1 C2]].
      constructor; [split; [exact Fc|lra]|]. apply IH; try lia; assumption.
  Qed.

  (* one component: conversion to the index type is defined, and i, i+1 are both inside the extent *)
  Lemma inner_index x s : In s sizes -> inner tcf x s ->
    conv_defined flocq_ops tcf tidx x = true /\ 0 <= s_conv flocq_ops tcf tidx x /\ s_conv flocq_ops tcf tidx x + 1 < s.
  Proof.
    intros Hs [Fx Rx]. unfold conv_defined. cbn [s_finite f_toZ s_conv flocq_ops].
    destruct Hf as [->| ->]; rewrite Hi; cbn [is_float andb negb]; unfold ffin, fval in *; rewrite Fx; cbn [andb].
    - destruct (btrunc_range 24 128 Hmax32 (of32 x) s Rx) as [T0 T1]. unfold toZ, trunc32.
      destruct (Hidx s (Btrunc 24 128 (of32 x)) Hs ltac:(lia)) as [Rg W].
      split; [exact Rg|]. unfold conv. unfold trunc32. destruct tidx; try discriminate; rewrite wrap_int_sty, W; lia.
    - destruct (btrunc_range 53 1024 Hmax64 (of64 x) s Rx) as [T0 T1]. unfold toZ, trunc64.
      destruct (Hidx s (Btrunc 53 1024 (of64 x)) Hs ltac:(lia)) as [Rg W].
      split; [exact Rg|]. unfold conv. unfold trunc64. destruct tidx; try discriminate; rewrite wrap_int_sty, W; lia.
  Qed.

  Lemma inner_all : forall c' ss, (forall s, In s ss -> In s sizes) -> Forall2 (inner tcf) c' ss ->
    forallb (conv_defined flocq_ops tcf tidx) c' = true /\
    Forall2 (fun i s => 0 <= i /\ i + 1 < s) (map (s_conv flocq_ops tcf tidx) c') ss.
  Proof.
    induction c' as [|x c' IH]; intros [|s ss] Hin H; inversion H; subst; cbn [forallb map].
    - split; [reflexivity|constructor].
    - destruct (inner_index x s (Hin s (or_introl eq_refl)) H3) as [A [B C]].
      destruct (IH ss (fun s' Hs' => Hin s' (or_intror Hs')) H5) as [A' B'].
      rewrite A, A'. split; [reflexivity|constructor; [split; assumption|exact B']].
  Qed.

  Lemma in_boxb_of_in_box : forall c ss, in_box ss c -> in_boxb c ss = true.
  Proof.
    induction c as [|x c IH]; intros [|s ss] H; inversion H; subst; cbn; [reflexivity|].
    rewrite IH by assumption. lia.
  Qed.

  Lemma cell_of_in_box c : in_box sizes c -> exists i v, strided_at tidx sizes store c = Some ([i], v) /\ in_storage sizes i.
  Proof.
    intros H. pose proof (rowmajor_range sizes c H) as R. unfold strided_at. rewrite (in_boxb_of_in_box _ _ H), (Haddr _ R).
    exists (rowmajor sizes c), (firstn m (skipn (Z.to_nat (rowmajor sizes c) * m) data)). split; [|exact R].
    unfold storage, array_at. destruct (Z.leb_spec 0 (rowmajor sizes c)); [|lia]. destruct (Z.ltb_spec (rowmajor sizes c) (zprod sizes)); [|lia]. reflexivity.
  Qed.

  Lemma gather_in_box (cs : list (list Z)) : Forall (in_box sizes) cs ->
    exists tr vals, gather (strided_at tidx sizes store) cs = Some (tr, vals) /\ Forall (in_storage sizes) tr.
  Proof.
    induction 1 as [|c cs Hc _ [tr [vals [G F]]]]; cbn [gather].
    - exists [], []. split; [reflexivity|constructor].
    - destruct (cell_of_in_box c Hc) as [i [v [E R]]]. rewrite E, G.
      exists ([i] ++ tr), (v :: vals). split; [reflexivity|]. constructor; assumption.
  Qed.

  (* every neighbour of a cell whose corner components all satisfy  0 <= i, i + 1 < s  lies in the box *)
  Lemma corner_in_box (f : nat -> bool) : forall (is_ ss : list Z) (st : nat),
    (forall s, In s ss -> In s sizes) ->
    Forall2 (fun i s => 0 <= i /\ i + 1 < s) is_ ss ->
    in_box ss (map (fun '(k, i) => wrap_sty tidx (i + (if f k then 1 else 0))) (combine (seq st (length is_)) is_)).
  Proof.
    induction is_ as [|i is_ IH]; intros [|s ss] st Hin H; inversion H as [|? ? ? ? [I0 I1] H']; subst; cbn [length seq combine map]; constructor.
    - assert (R : 0 <= i + (if f st then 1 else 0) < s) by (destruct (f st); lia).
      destruct (Hidx s _ (Hin s (or_introl eq_refl)) R) as [_ W]. rewrite W. exact R.
    - apply IH; [|exact H']. intros s' Hs'. apply Hin. now right.
  Qed.

  Theorem clamp_over_linear_safe tv (c : list Z) : length c = length sizes -> Forall (notnan tcf) c ->
    exists tr vs, clamp_at flocq_ops tcf lo hi (interpolated tv) c = Some (tr, vs) /\ Forall (in_storage sizes) tr.
  Proof.
    intros Hc Hn. unfold clamp_at, interpolated.
    pose proof (clamped_inner c lo hi sizes Hc Hlo Hhi Hn Box) as I.
    set (c' := map3 (clamp1 flocq_ops tcf) c lo hi) in *.
    destruct (inner_all c' sizes (fun s Hs => Hs) I) as [D1 D2].
    unfold linear_at. cbv zeta. rewrite D1. cbn [negb].
    match goal with |- context [gather _ ?cs] => set (corners := cs) end.
    assert (L : Forall (in_box sizes) corners).
    { unfold corners. apply Forall_forall. intros cc Hin. apply in_map_iff in Hin as [n [<- _]].
      destruct (length c' <=? 3)%nat; unfold corner_special, corner_generic; cbv zeta.
      - apply (corner_in_box (fun k => bitof n (length (map (s_conv flocq_ops tcf tidx) c') - 1 - k)) _ sizes 0%nat); auto.
      - apply (corner_in_box (fun k => bitof n k) _ sizes 0%nat); auto. }
    destruct (gather_in_box corners L) as [tr [vals [G F]]]. rewrite G. eexists; eexists. split; [reflexivity|exact F].
  Qed.
End Above.
