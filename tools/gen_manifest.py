#!/usr/bin/env python3
"""gen_manifest.py -- single source of /verif/MANIFEST.json (run after adding a check)."""
import json, os

VERIF = os.path.dirname(os.path.dirname(os.path.abspath(__file__)))
ALL = [f'C{i:02d}' for i in range(1, 21)]

TB_KERNEL = ('Trusted: Coq 8.16.1 kernel (coqc, vm_compute; no native_compute), tools/cxx2coq.py + clang 14 AST + coq/CKernel.v for the translated kernels, '
             'extraction (ExtrOcamlBasic only, no Extract Constant), the OCaml drivers, the C++ harness and g++ 12.2 with ASan/UBSan.')
TB_MODEL = ('Trusted: Coq 8.16.1 kernel (coqc, vm_compute; no native_compute), the hand-written model files named above (tied to the code by the correspondence run, '
            'not by translation), extraction (ExtrOcamlBasic only, no Extract Constant), the OCaml drivers, the C++ harness and g++ 12.2 with ASan/UBSan.')
AX_REALS = (' Theorems instantiated with the Flocq float operations depend on the Coq standard library\'s real-number axioms as Print Assumptions reports them '
            '(ClassicalDedekindReals.sig_forall_dec, sig_not_dec, FunctionalExtensionality.functional_extensionality_dep, Classical_Prop.classic); the versions '
            'generic in the scalar operations are closed under the global context. None is declared by this development.')

CHECKS = {
    'C18': dict(cat='proof', tech='Coq proof over translated kernels + differential correspondence', ref='DESIGN.md section 6, C18',
                text='Theorems about the kernels regenerated from numeric.hpp on every run: round_pow2 = least power of two >= i on [1, 2^(w-1)] (and divergence just above), ipow = b^e mod 2^w, for every unsigned width in 1..15/16 or >= 32; tied additionally by running the extracted generated kernels, the closed forms and the compiled templates on the same inputs.',
                note=TB_KERNEL + ' Theorems are closed under the global context (no axioms).'),
    'C19': dict(cat='proof', tech='Coq proof on a hand model + exhaustive-to-a-bound correspondence', ref='DESIGN.md section 6, C19',
                text='Theorems for every dimensionality and extent vector about the model nd_map: complete, duplicate-free, count = 1 inside the box and 0 outside, lexicographic; the model is tied to nd_map.hpp by sequence equality of the callback tuples on all extent vectors up to a bound (dimension 1..5, extents including 0 and 1).',
                note='Hand-written model (NdMap.v) tied by correspondence, not by translation (the recursion goes through templates and std::function). Axiom-free. ' + TB_MODEL),
    'C20': dict(cat='proof', tech='Coq proof on a hand model + compile-time correspondence', ref='DESIGN.md section 6, C20',
                text='Theorems for all sequences over N about the model of the metaprogram (filter_lt/filter_geq/sort/is_perm mirrored equation by equation): sorted, same multiset, unique, predicate <=> Permutation; tied by evaluating the real templates in generated translation units on every sequence up to a bound and comparing with the extracted model.',
                note='Hand-written model (StaticPerm.v) tied by compile-time correspondence with g++ 12.2. Axiom-free. ' + TB_MODEL),
    'C14': dict(cat='proof', tech='Coq proof over translated kernels + differential correspondence', ref='DESIGN.md section 6, C14',
                text='Theorems: the kernels regenerated from strided.hpp, morton.hpp (portable loop, both pre-processor variants) and hilbert.hpp on every run compute rowmajor / the bit interleave (characterised bit by bit, first coordinate least significant) / the Hilbert quadrant recursion, with no wrap or UB; the BMI2 model equals the portable loop on the domain; the Hilbert recursion is a bijection onto [0,4^k) starting at the origin with edge-adjacent consecutive cells for ALL k. Correspondence runs the real layers (over the identity backend and the static index functions, with and without -mbmi2) against the extracted kernels and specs.',
                note=TB_KERNEL + ' PdepModel.v is a hand model of _pdep_u64 and the mask metaprogram, validated in the -mbmi2 build. All theorems closed under the global context.'),
    'C01': dict(cat='proof', tech='Coq proof over translated kernels + exhaustive-to-a-bound correspondence', ref='DESIGN.md section 6, C01',
                text='Theorems: any injective in-range layout gives read-own-write, frame and in-storage; row-major, Morton and Hilbert are such layouts for every extent vector with the library\'s own capacity expression ipow(round_pow2(max extent), N); the generated kernels compute exactly these index functions in both the NDEBUG and the assertion-enabled translation. Correspondence: real fields over array storage (converted into each layout), every coordinate written and everything read back after each write, positions relative to the storage base pairwise distinct and below the storage length, under ASan/UBSan with assertions, in -O2 -DNDEBUG and with -mbmi2.',
                note=TB_KERNEL + ' The array backend itself (reference into m_ptr) is observed, not modelled. Axiom-free.'),
    'C02': dict(cat='proof', tech='Coq proof on a hand reference interpreter + per-layer probe correspondence and sampled composition', ref='DESIGN.md section 6, C02',
                text='Theorems (StackProofs.v, any scalar arithmetic): eval of a stack of any depth is its outermost layer applied to eval of the rest (eval_cons); a layer sees its backend only through at() (layer_parametric) so what lies beneath matters only through its kind and answers (eval_depends_only_on_backend); the one-line law of every layer over an arbitrary backend for any N and M (list lengths), the cast acting on the M output components, permutation identity and composition. Tie: every layer template over a recording probe backend for N, M in 1..4 independently (queries issued, in order, and values returned must equal the model layer) and the catalogue plus seeded random stacks from the grammar up to depth 5 evaluated at coordinates the model finds in-domain, in both at() forms, bit-exactly (floating-point results against the Flocq evaluation in the code\'s operation order).',
                note='Stack.v (the interpreter) is hand-written and tied only by the correspondence run; a C++ layer template being parametric in its backend type is sampled, not proved. ' + TB_MODEL + ' The theorems are closed under the global context.'),
    'C10': dict(cat='proof', tech='Coq proof on the model layer + correspondence under ASan with extreme coordinates', ref='DESIGN.md section 6, C10',
                text='Theorems: for EVERY coordinate the clamp layer queries its backend inside the box, needing only irreflexivity of the order (clamp_in_box), which the IEEE order with infinities / signed zeros and the integer orders satisfy (flocq_lt_irrefl); identity inside the box; a clamp over row-major array storage with the box inside the extents reaches a flat position inside the storage for every coordinate (clamp_safe_over_array, with C01\'s rowmajor_range). Tie: clamp over identity / probe for N in 1..4 and int / unsigned / size_t / float / double coordinates at every type extreme, infinities, signed zeros, subnormals and each bound +- one step, judged by an independent std::clamp oracle and the model; clamp above and beneath interpolators over array storage under ASan+UBSan with assertions.',
                note='std::clamp is modelled from its specification (lo if v<lo, hi if hi<v, else v; boxes with lo <= hi as the property states). ' + TB_MODEL + AX_REALS),
    'C11': dict(cat='proof', tech='Coq proof over the translated kernel and the model layer + probe correspondence', ref='DESIGN.md section 6, C11',
                text='Theorems: the kernel regenerated from backup.hpp on every run (loop with early return) returns the default with no backend query when some component is outside the closed box and queries the backend at the unchanged coordinate otherwise, for every integer coordinate type of 32..64 bits and every N (backup_at_refines); the model layer over an arbitrary backend and any order has the empty trace outside and is the backend inside (backup_outside / backup_inside / outside_spec); the kernel\'s test is the model\'s test on integer types. Tie: the layer over a recording probe backend for N, M in 1..4 independently and five coordinate types, at each bound, one step either side (nextafter), signed zeros, extremes, empty boxes, judged by an independent oracle (default and NO query / exactly one query at the coordinate) and the model; over array storage under ASan.',
                note=TB_KERNEL + ' Floating coordinates are covered by the model layer and the correspondence, not by the translated kernel (CKernel has integer types only).' + AX_REALS),
    'C13': dict(cat='proof', tech='Coq proof of kind soundness of the model + compile-acceptance correspondence (partial)', ref='DESIGN.md section 6, C13',
                text='PARTIAL. Proved (StackSound.v, any scalar arithmetic, stacks of any depth): kinds compose layer by layer and the reference interpreter is kind-sound -- a lookup through a well-kinded stack with well-shaped configurations at a coordinate of k_n components returns exactly k_m components, so no layer is ever handed data of the wrong dimension; the model rejects a catalogue of ill-kinded compositions. Observed, not proved: g++ -std=c++20 accepts the whole-API instantiation (parameter-pack and make_parameter_pack_for construction, view, both at() forms, write, configuration chain, dump, load, copy/move construction and assignment, trivially copyable view, backend concept) of every enumerated well-kinded stack (pairwise layer adjacency over every primitive and storage order, catalogue, seeded random stacks to depth 5) and of the compatible-stack conversions, and rejects a catalogue violating each stated kind (every static_assert and concept constraint of the layers and of field_view), with a well-kinded control.',
                note='No semantics of C++ templates, overload resolution or concepts exists in this development: compiler acceptance is an observation on the enumerated programs with g++ 12.2 only. CUDA backends are not compiled (no toolkit). ' + TB_MODEL + ' The theorem is closed under the global context.'),
    'C17': dict(cat='proof', tech='Coq proof on the construction/read-back model + correspondence through the real constructors to depth 10', ref='DESIGN.md section 6, C17',
                text='Theorems (StackGlueProofs.v, stacks of any depth): constructing from per-layer configurations (outermost first, then the primitive) and reading them back are inverse (configs_of_constructed, rebuild_from_configs), the i-th group read back belongs to the i-th layer from the outside and the groups cover everything. Tie: stacks of depth 1..10 made of layers with same-typed pairwise distinct configurations are built through make_parameter_pack_for and through (configuration, backend) constructors; every configuration is read back through get_configuration() and the get_backend() chain and must equal what was passed in order (independent oracle: the generated tokens); a second field rebuilt from what is reported must have identical configurations, storage, dump bytes and values at sampled coordinates; all compared with the model.',
                note='The ten generated make_parameter_pack_for overloads are exercised at every depth 1..10, not translated. ' + TB_MODEL + ' Theorems closed under the global context.'),
    'C03': dict(cat='proof', tech='Coq proof over a commutative ring on the shared arithmetic skeleton + exact-rational oracles and bit-exact Flocq correspondence', ref='DESIGN.md section 6, C03',
                text='Theorems (LinearProofs.v, LinearBridge.v, LinearReal.v): over ANY commutative ring and every N, the generic branch (bit k of n for axis k, weight 1*w0*w1.., accumulated from 0) and the specialised branches (axis k on bit N-1-k, products and sums left to right) are the N-linear interpolant of the 2^N corner values with weights the products of the per-axis fractions; at a corner it is that corner\'s value; over the reals with fractions in [0,1] it stays within the range of the corner values. These are theorems about LinearCore\'s definitions, which Stack.linear_comp (the executable model) instantiates with IEEE operations; with exact operations linear_comp is proved equal to the interpolant. Tie: linear over a recording probe for N in 1..5 and M in 1..4 independently and all float/double combinations, and over row-major / Morton / Hilbert storage: corner set, lattice exactness, closeness to the exact rational interpolant and range, all judged in exact rationals, plus bit equality with the Flocq model.',
                note='The forward rounding-error bound used by oracle (c)/(d) is TESTED, not proved (no floating-point error theorem; the lattice-point and cell-selection facts are likewise observed, not proved). M enters only as the number of components treated one by one. ' + TB_MODEL + ' Ring-level theorems are closed under the global context; interp_convex uses the standard real-number axioms.'),
    'C09': dict(cat='proof', tech='Coq proof over a commutative ring on the shared algebra skeleton + exact-rational oracle and bit-exact Flocq correspondence', ref='DESIGN.md section 6, C09',
                text='Theorems (AlgebraProofs.v, any commutative ring, every N): affine*vector is A.x+t componentwise (affine_apply_spec); the product of two transforms applied to a vector is the right factor then the left (compose_apply, through the code\'s (N+1)x(N+1) embedding and the associativity of matrix*vector); products of any length act as the composite of their factors; the identity acts as the identity. The affine layer of the executable model is by definition this algebra with IEEE operations (affine_layer_law). Tie: covfie::algebra operators called directly (apply, compose, chains of up to 4, translation / scaling / identity, matrix products) and the affine layer over identity / probe backends, N in 1..4, float and double: exact equality on small-integer operands, a stated tolerance against exact rationals elsewhere, bit equality with the Flocq model in the code\'s summation order.',
                note='translation / scaling have no Coq theorem yet (checked by the oracle only). The tolerance for non-integer operands is tested, not proved. ' + TB_MODEL + ' Theorems closed under the global context.'),
    'C04': dict(cat='proof', tech='Coq proof (Flocq) + AST-read rounding callee + correspondence at half-integers', ref='DESIGN.md section 6, C04',
                text='Theorems: rounding to integral with ties to even at the argument\'s own precision is within 1/2 of the argument, for float and for double, for every argument (lrint_half via Bnearbyint_correct / error_le_half_ulp); the layer over an arbitrary backend queries a lattice point every component of which is within 1/2 of the coordinate (nearest_closest, any N); the rounding call the code names on this run, read from clang\'s AST into Gen_Nearest.v, rounds at the coordinate precision for both coordinate types (nn_round_refines: fails to compile for std::lrintf, for which lrintf_on_double_refuted gives the witness 2.5+2^-33). Tie: nearest over identity / probe / array storage, N in 1..4, float and double, at every half-integer up to 64 and one ulp either side, half-integers +- 2^-30, the 2^23 / 2^24 / 2^52 neighbourhoods, judged by an exact-rational oracle and the model.',
                note='std::lrint / lrintf are modelled (Bnearbyint mode_NE then Btrunc; default rounding mode assumed); the model is validated against the real functions on the correspondence inputs. ' + TB_MODEL + AX_REALS),
    'C06': dict(cat='proof', tech='Coq proof on a hand model of the byte format + byte-exact correspondence', ref='DESIGN.md section 6, C06',
                text='Theorems (BinIOProofs.v) for every stack of the layer grammar and every well-formed field, all bit patterns: the reader inverts the writer with any bytes following (load_dump), re-dumping the loaded field gives the same bytes (dump_load_dump), every well-formed field is serialisable (dump_total). The model writer/reader (BinIO.v) is tied to field::dump / field(std::istream&) and every layer\'s read_binary / write_binary byte for byte: for each stack of the catalogue (every serialisable layer in several positions + seeded random stacks) the implementation\'s dump must equal the model\'s bytes, its load must yield the model\'s configuration and storage, and its second dump the same bytes.',
                note='BinIO.v, Stack.v, StackGlue.v are hand-written. ' + TB_MODEL + AX_REALS),
    'C07': dict(cat='proof', tech='Coq proof on a hand model of the byte format + correspondence + committed golden files', ref='DESIGN.md section 6, C07',
                text='Theorems (BinIOPortable.v, FloatFacts.v): stacks that differ only in the interpolation method have the same writer and the same reader (interp_blind, any stack depth); a dump over array<t> loads into the same stack over array<t\'> with every scalar converted by static_cast and everything else unchanged (load_cross, stacks without an out-of-range-default layer); that conversion is exact when widening a finite float and is rounding to nearest-even when narrowing a double whose rounding is below 2^128 (Flocq binary_normalize_correct). Tie: all interpolator pairs and float/double pairs over 30 stack shapes are transferred through the real dump/load and compared with the model and with python\'s IEEE conversion on values aimed at ties, subnormals and the range end; 30 committed golden files covering every serialisable layer must load with their recorded contents, re-dump to the same bytes, and be accepted by the model reader.',
                note='The golden files were written by the pinned revision plus the fix: commits (three layers could not be dumped or loaded at all before them; no fix changed a byte of the format). ' + TB_MODEL + AX_REALS),
    'C08': dict(cat='proof', tech='Coq proof on a hand model of the reader + complete fault enumeration against it', ref='DESIGN.md section 6, C08',
                text='Theorems (BinIOProofs.v, BinIOFlip.v): the reader is a prefix-safe deterministic parser on every input it accepts (load_ok_reader), hence EVERY proper prefix of EVERY dump is rejected (prefix_rejected); altering any magic or tag word, or setting the width word to anything but 4/8, is rejected whatever follows (flip_rejected, over the segment view dump_segs proved equal to the dump). Tie: the fault-injecting correspondence loads every truncation point of every dump, sampled replacements at every tag/width position given by dump_segs, and every dump into every other stack type, in an assertion build and a -O2 -DNDEBUG build under ASan/UBSan; the outcome must be an exception wherever the model says Bad, and the same loaded field wherever it says Good.',
                note='What is proved is rejection in the model; that the C++ reader throws (rather than aborts, hangs or reads indeterminate bytes) is observed at every enumerated fault, not proved. ' + TB_MODEL + AX_REALS),
}

REASON_WIP = 'check not built yet (work in progress; DESIGN.md section 6 applies the Coq technique to it)'


def main():
    order = [p for p in ALL if p in CHECKS]
    checks = []
    for pid in order:
        c = CHECKS[pid]
        checks.append({
            'property_id': pid,
            'quick_cmd': f'python3 check.py {pid} --tier quick',
            'thorough_cmd': f'python3 check.py {pid} --tier thorough',
            'evidence_file': f'evidence/{pid}.json',
            'replay_cmd_template': f'python3 check.py {pid} --replay {{path}}',
            'engine': 'coq',
            'level_claimed': {'category': c['cat'], 'text': c['text'], 'design_ref': c['ref']},
            'level_note': c['note'],
            'technique': c['tech'],
        })
    man = {
        'version': 1,
        'setup_cmd': 'python3 check.py --setup',
        'hooks': {
            'guard': 'COVFIE_VERIF',
            'enable': 'none needed: every layer member the checks use is public; harness programs are compiled with -DCOVFIE_VERIF against /repo/lib of the working tree',
            'baseline_off_cmd': 'cmake --build /repo/_build -j16 && /repo/_build/tests/core/test_core && /repo/_build/tests/cpu/test_cpu',
            'source_commits': [],
            'add_only': True,
        },
        'engines': [
            {'name': 'coq', 'path': 'coq/', 'serves_properties': order,
             'kind_free_text': 'Coq 8.16.1 development: CKernel semantics, kernels generated from clang\'s AST by tools/cxx2coq.py, hand models of the layer stack / byte format / ownership, refinement lemmas, property theorems'},
            {'name': 'correspondence', 'path': 'check.py', 'serves_properties': order,
             'kind_free_text': 'extracted OCaml model vs generated C++ harness on the same cases'},
        ],
        'checks': checks,
        'not_applicable': [{'property_id': p, 'reason': REASON_WIP} for p in ALL if p not in CHECKS],
        'notes': 'properties are added to `checks` as their machinery lands; see DESIGN.md',
    }
    with open(os.path.join(VERIF, 'MANIFEST.json'), 'w') as f:
        json.dump(man, f, indent=1)
    print('MANIFEST.json:', len(checks), 'checks,', len(man['not_applicable']), 'not claimed')


if __name__ == '__main__':
    main()
