#!/usr/bin/env python3
"""try_seed.py -- confirm a seeded change and run checks against it.

  try_seed.py <dir with patch.diff, demo.cpp, notes.txt> <seed id> <property> [more check ids...]

1. scratch worktree of /repo HEAD (under /tmp): apply the patch, build and run the 99-test suite (must pass),
   build and run the demonstration (must fail), revert, run the demonstration again (must pass); remove the worktree.
2. apply the patch to /repo, run the quick check of each listed property, undo the patch at once.
3. keep patch, demonstration and meta.json under /verif/seeded/<seed id>/."""
import json, os, shutil, subprocess, sys, time

VERIF = os.path.dirname(os.path.dirname(os.path.abspath(__file__)))
REPO = '/repo'


def sh(cmd, cwd=None, timeout=3000):
    p = subprocess.run(cmd, cwd=cwd, shell=isinstance(cmd, str), stdout=subprocess.PIPE, stderr=subprocess.STDOUT, text=True, errors='replace', timeout=timeout)
    return p.returncode, p.stdout


def main():
    src, sid, prop = sys.argv[1], sys.argv[2], sys.argv[3]
    checks = [prop] + sys.argv[4:]
    patch = os.path.abspath(os.path.join(src, 'patch.diff'))
    demo = os.path.abspath(os.path.join(src, 'demo.cpp'))
    meta = {'seed': sid, 'breaks_property': prop, 'ran': [], 'at': time.strftime('%Y-%m-%d %H:%M:%S')}
    notes = os.path.join(src, 'notes.txt')
    meta['needs_to_manifest'] = open(notes).read().strip() if os.path.exists(notes) else ''
    wt = f'/tmp/wtv_{sid}'
    sh(['git', '-C', REPO, 'worktree', 'remove', '--force', wt])
    rc, out = sh(['git', '-C', REPO, 'worktree', 'add', '-f', wt, 'HEAD'])
    try:
        rc, out = sh(['git', 'apply', '--check', patch], cwd=wt)
        if rc != 0:
            rc3, out3 = sh(['git', 'apply', '--3way', patch], cwd=wt)
            meta['applies'] = rc3 == 0
            if rc3 != 0:
                print('PATCH DOES NOT APPLY', out, out3)
                meta['confirmed'] = False
                return finish(meta, src, sid)
            sh(['git', 'checkout', '--', '.'], cwd=wt)
            # regenerate the patch against the current HEAD
            sh(['git', 'apply', '--3way', patch], cwd=wt)
            rc, newp = sh(['git', 'diff', 'HEAD'], cwd=wt)
            open(patch, 'w').write(newp)
            sh(['git', 'reset', '-q'], cwd=wt)
            sh(['git', 'checkout', '--', '.'], cwd=wt)
        rc, out = sh(['git', 'apply', patch], cwd=wt)
        meta['applies'] = rc == 0
        rc, out = sh('cmake -S . -B _build -G Ninja -DCOVFIE_BUILD_TESTS=ON -DCOVFIE_PLATFORM_CPU=ON -DCMAKE_BUILD_TYPE=RelWithDebInfo -DCMAKE_CXX_FLAGS=-Wno-error >/dev/null && '
                     'cmake --build _build -j16 2>&1 | tail -3 && _build/tests/core/test_core 2>&1 | tail -2 && _build/tests/cpu/test_cpu 2>&1 | tail -2', cwd=wt)
        meta['suite_passes_with_change'] = rc == 0 and out.count('PASSED') >= 2 and 'FAILED' not in out
        meta['ran'].append('suite with change: ' + ' / '.join(l.strip() for l in out.strip().split('\n')[-4:]))
        cc = f'g++ -std=c++20 -O1 -pthread -I{wt}/lib/core -I{wt}/lib/cpu {demo} -o {wt}/demo_bin'
        rc, out = sh(cc + f' && {wt}/demo_bin', cwd=wt, timeout=600)
        meta['demo_fails_with_change'] = rc != 0
        meta['ran'].append(f'demo with change: exit {rc}: ' + out.strip()[-300:])
        sh(['git', 'checkout', '--', '.'], cwd=wt)
        rc, out = sh(cc + f' && {wt}/demo_bin', cwd=wt, timeout=600)
        meta['demo_passes_without_change'] = rc == 0
        meta['ran'].append(f'demo without change: exit {rc}: ' + out.strip()[-200:])
    finally:
        sh(['git', '-C', REPO, 'worktree', 'remove', '--force', wt])
    meta['confirmed'] = bool(meta.get('applies') and meta.get('suite_passes_with_change') and meta.get('demo_fails_with_change') and meta.get('demo_passes_without_change'))
    print(json.dumps({k: meta[k] for k in ('applies', 'suite_passes_with_change', 'demo_fails_with_change', 'demo_passes_without_change', 'confirmed')}))
    if meta['confirmed']:
        meta['checks'] = {}
        rc, st = sh(['git', '-C', REPO, 'status', '--porcelain', '--untracked-files=no'])
        if st.strip():
            print('REPO NOT CLEAN, not applying', st)
            return finish(meta, src, sid)
        try:
            rc, out = sh(['git', '-C', REPO, 'apply', patch])
            for c in checks:
                t0 = time.time()
                rc, out = sh([sys.executable, 'check.py', c, '--tier', 'quick'], cwd=VERIF, timeout=6000)
                viol = [l for l in out.split('\n') if l.startswith('VIOLATION')]
                detail = [l.strip()[:300] for l in out.split('\n') if l.startswith('  ') and ':' in l][:3]
                meta['checks'][c] = {'exit': rc, 'violations': len(viol), 'first': detail[:2], 'wall_s': round(time.time() - t0)}
                print(c, 'exit', rc, 'violations', len(viol), detail[:1])
        finally:
            sh(['git', '-C', REPO, 'checkout', '--', '.'])
        meta['caught_by'] = [c for c, v in meta['checks'].items() if v['exit'] != 0]
    return finish(meta, src, sid)


def finish(meta, src, sid):
    d = os.path.join(VERIF, 'seeded', sid)
    if meta.get('confirmed'):
        os.makedirs(d, exist_ok=True)
        for f in ('patch.diff', 'demo.cpp', 'notes.txt'):
            if os.path.exists(os.path.join(src, f)) and os.path.abspath(os.path.join(src, f)) != os.path.abspath(os.path.join(d, f)):
                shutil.copy(os.path.join(src, f), os.path.join(d, f))
        json.dump(meta, open(os.path.join(d, 'meta.json'), 'w'), indent=1)
    print('caught by:', meta.get('caught_by'))
    return 0


if __name__ == '__main__':
    sys.exit(main())
