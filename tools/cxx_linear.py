#!/usr/bin/env python3
"""cxx_linear.py -- translate linear.hpp's lookup (non_owning_data_t::at and _backend_index_helper) from clang's JSON AST
of the UNINSTANTIATED template into terms of coq/LinLang.v.

  cxx_linear.py <repo> <out.v>      prints a JSON report {branches: [...], untranslatable: [{name, why}]}

The body of `at` must be a chain  if constexpr (contravariant_input_t::dimensions == K) {...} else if ... else {...};
each branch is translated statement by statement:

  index x = static_cast<index>(coord[K]);            LDeclI
  input_scalar_type x = E;  /  x{E};                 LDeclF
  x *= E;                                            LMulF
  a[k] = static_cast<index>(coord[k]);               LSetI          (a declared as contravariant_output_t::vector_t)
  a[k] = E;                                          LSetF          (a declared as input_scalar_type[...])
  pc[n] = m_backend.at({C, ...});                    LFetch         C ::= static_cast<idx>(x + ((n & MASK) ? 1 : 0))
  pc[n] = m_backend.at(_backend_index_helper(a, n, std::make_index_sequence<dims>{}));     LFetchHelper
  rv[q] = E;   rv[q] = 0.f;   rv[q] += E;            LSetRv / LSetRvLit / LAccRv
  for (size_t v = 0; v < BOUND; ++v) {...}           LFor  (LForQ when the loop variable indexes rv and pc[..][q])
  if (n & MASK) {...} else {...}                     LIfBit
  declarations of pc / rv / arrays without initialiser, return rv;      (no effect)
  E ::= coord[k] | std::trunc(E) | E - E | E * E | E + E | 1. / 0. (under static_cast<input_scalar_type>) | x | a[k]
      | static_cast<input_scalar_type>(pc[n][q])
Anything else is reported as untranslatable.
"""
import json, os, subprocess, sys, tempfile


class Untranslatable(Exception):
    pass


SKIP = ('ImplicitCastExpr', 'ParenExpr', 'ExprWithCleanups', 'MaterializeTemporaryExpr', 'CXXBindTemporaryExpr', 'CXXFunctionalCastExpr')
SRC = {'text': None}


def strip(d):
    while isinstance(d, dict) and d.get('kind') in SKIP and d.get('inner'):
        d = d['inner'][0]
    return d


def q(s):
    return '"' + s + '"'


def ref(d):
    d = strip(d)
    return d.get('referencedDecl', {}).get('name') if d.get('kind') == 'DeclRefExpr' else None


def trait_of(d):
    """X::dimensions -> X (read from the source text; the JSON drops the qualifier)"""
    b = d.get('range', {}).get('begin', {})
    b = b.get('expansionLoc', b)
    if SRC['text'] is None or 'offset' not in b:
        raise Untranslatable('trait dimension without source position')
    return SRC['text'][b['offset']:b['offset'] + b.get('tokLen', 0)]


class Br:
    def __init__(self):
        self.nvars = set()      # loop variables
        self.ivars = set()      # index scalars
        self.fvars = set()      # coordinate-precision scalars
        self.iarrs = set()
        self.farrs = set()
        self.qvar = None
        self.coord_name = 'coord'

    def nexp(self, d):
        d = strip(d)
        k = d.get('kind')
        if k == 'IntegerLiteral':
            return f'(NL {int(d["value"])})'
        if k == 'DeclRefExpr':
            n = d['referencedDecl']['name']
            if n in self.nvars or n in ('n', 'Is'):
                return f'(NV {q(n)})'
            raise Untranslatable(f'index expression refers to {n}')
        if k in ('CXXDependentScopeMemberExpr', 'DependentScopeDeclRefExpr'):
            t = trait_of(d)
            if t in ('contravariant_input_t', 'contravariant_output_t'):
                return 'NDim'
            raise Untranslatable(f'dimension of {t} used as an index bound')
        if k == 'BinaryOperator' and d.get('opcode') == '<<':
            a = strip(d['inner'][0])
            if a.get('kind') == 'IntegerLiteral' and a.get('value') == '1':
                return f'(NShl1 {self.nexp(d["inner"][1])})'
        raise Untranslatable(f'index expression {k} {d.get("opcode", "")}')

    def fexp(self, d):
        d0 = d
        d = strip(d)
        k = d.get('kind')
        if k == 'CXXStaticCastExpr':
            ty = d['type']['qualType']
            inner = strip(d['inner'][0])
            if not ty.endswith('input_scalar_type'):
                raise Untranslatable(f'cast to {ty} inside a scalar expression')
            if inner.get('kind') == 'FloatingLiteral' or inner.get('kind') == 'IntegerLiteral':
                return self.lit(inner)
            # static_cast<input_scalar_type>(pc[n][q])
            if inner.get('kind') == 'ArraySubscriptExpr':
                a = strip(inner['inner'][0])
                if a.get('kind') == 'ArraySubscriptExpr' and ref(a['inner'][0]) == 'pc' and ref(inner['inner'][1]) == self.qvar and self.qvar:
                    return f'(FPc {self.nexp(a["inner"][1])})'
            raise Untranslatable('static_cast<input_scalar_type> of something other than a literal or pc[n][q]')
        if k in ('FloatingLiteral', 'IntegerLiteral'):
            return self.lit(d)
        if k == 'InitListExpr' and len(d.get('inner', [])) == 1:
            return self.fexp(d['inner'][0])
        if k == 'DeclRefExpr':
            n = d['referencedDecl']['name']
            if n in self.fvars:
                return f'(FVar {q(n)})'
            raise Untranslatable(f'scalar reference to {n}')
        if k == 'ArraySubscriptExpr':
            a = ref(d['inner'][0])
            if a == 'coord':
                return f'(FCoord {self.nexp(d["inner"][1])})'
            if a in self.farrs:
                return f'(FArr {q(a)} {self.nexp(d["inner"][1])})'
            raise Untranslatable(f'subscript of {a}')
        if k == 'CallExpr':
            c = strip(d['inner'][0])
            if c.get('kind') in ('UnresolvedLookupExpr', 'DeclRefExpr') and (c.get('name') or c.get('referencedDecl', {}).get('name')) == 'trunc' and len(d['inner']) == 2:
                # qualified std::trunc: the qualifier is in the source text
                b = d.get('range', {}).get('begin', {})
                b = b.get('expansionLoc', b)
                if SRC['text'] is not None and 'offset' in b and not SRC['text'][b['offset']:b['offset'] + 10].startswith('std::trunc'):
                    raise Untranslatable('trunc is not std::trunc')
                return f'(FTrunc {self.fexp(d["inner"][1])})'
            raise Untranslatable('call inside a scalar expression')
        if k == 'BinaryOperator' and d.get('opcode') in ('-', '*', '+'):
            c = {'-': 'FSub', '*': 'FMul', '+': 'FAdd'}[d['opcode']]
            return f'({c} {self.fexp(d["inner"][0])} {self.fexp(d["inner"][1])})'
        raise Untranslatable(f'scalar expression {k} {d.get("opcode", "")}')

    def lit(self, d):
        v = float(d['value'])
        if v == 0.0:
            return '(FLit false)'
        if v == 1.0:
            return '(FLit true)'
        raise Untranslatable(f'literal {d["value"]}')

    def cexp(self, d):
        """static_cast<backend index>(BASE + ((n & MASK) ? 1 : 0))"""
        d = strip(d)
        if d.get('kind') != 'CXXStaticCastExpr' or 'contravariant_input_t::scalar_t' not in d['type']['qualType']:
            raise Untranslatable('neighbour component is not a static_cast to the backend index type')
        e = strip(d['inner'][0])
        if not (e.get('kind') == 'BinaryOperator' and e.get('opcode') == '+'):
            raise Untranslatable('neighbour component is not base + offset')
        b = strip(e['inner'][0])
        if b.get('kind') == 'DeclRefExpr' and b['referencedDecl']['name'] in self.ivars:
            base = f'(IVar {q(b["referencedDecl"]["name"])})'
        elif b.get('kind') == 'ArraySubscriptExpr' and (ref(b['inner'][0]) in self.iarrs or ref(b['inner'][0]) == 'coord'):
            base = f'(IArr {q(ref(b["inner"][0]))} {self.nexp(b["inner"][1])})'
        else:
            raise Untranslatable('neighbour base is not an index variable')
        c = strip(e['inner'][1])
        if c.get('kind') != 'ConditionalOperator':
            raise Untranslatable('neighbour offset is not a conditional')
        cond, one, zero = strip(c['inner'][0]), strip(c['inner'][1]), strip(c['inner'][2])
        if not (one.get('value') == '1' and zero.get('value') == '0' and cond.get('kind') == 'BinaryOperator' and cond.get('opcode') == '&'):
            raise Untranslatable('neighbour offset is not (n & mask) ? 1 : 0')
        return f'(CPlusBit {base} {self.nexp(cond["inner"][0])} {self.nexp(cond["inner"][1])})'

    def block(self, d):
        d = strip(d)
        items = d.get('inner', []) if d.get('kind') == 'CompoundStmt' else [d]
        out = []
        for s in items:
            out += self.stmt(s)
        return out

    def stmt(self, s):
        k = s.get('kind')
        if k == 'NullStmt':
            return []
        if k == 'DeclStmt':
            out = []
            for vd in s['inner']:
                if vd.get('kind') != 'VarDecl':
                    raise Untranslatable(f'declaration {vd.get("kind")}')
                ty, name = vd['type']['qualType'], vd['name']
                init = vd['inner'][0] if vd.get('inner') else None
                if name in ('pc', 'rv') and init is None:
                    continue
                if ty.endswith('contravariant_output_t::scalar_t'):
                    i = strip(init) if init else None
                    if not (i and i.get('kind') == 'CXXStaticCastExpr' and i['type']['qualType'].endswith('contravariant_output_t::scalar_t')):
                        raise Untranslatable(f'index variable {name} is not static_cast<index>(coord[k])')
                    a = strip(i['inner'][0])
                    if not (a.get('kind') == 'ArraySubscriptExpr' and ref(a['inner'][0]) == 'coord'):
                        raise Untranslatable(f'index variable {name} is not taken from coord')
                    self.ivars.add(name)
                    out.append(f'LDeclI {q(name)} {self.nexp(a["inner"][1])}')
                elif ty.endswith('input_scalar_type'):
                    if init is None:
                        raise Untranslatable(f'uninitialised scalar {name}')
                    e = self.fexp(init)
                    self.fvars.add(name)
                    out.append(f'LDeclF {q(name)} {e}')
                elif ty.endswith('contravariant_output_t::vector_t') and init is None:
                    self.iarrs.add(name)
                elif 'input_scalar_type[' in ty and init is None:
                    self.farrs.add(name)
                else:
                    raise Untranslatable(f'declaration of {name} : {ty}')
            return out
        if k == 'ForStmt':
            init, _, cond, inc, body = s['inner']
            vd = init['inner'][0] if init.get('kind') == 'DeclStmt' else None
            if not vd or vd.get('kind') != 'VarDecl' or strip(vd['inner'][0]).get('value') != '0':
                raise Untranslatable('loop does not start at 0')
            v = vd['name']
            c = strip(cond)
            if not (c.get('kind') == 'BinaryOperator' and c.get('opcode') == '<' and ref(c['inner'][0]) == v):
                raise Untranslatable('loop condition is not v < bound')
            i = strip(inc)
            if not (i.get('kind') == 'UnaryOperator' and i.get('opcode') == '++' and ref(i['inner'][0]) == v):
                raise Untranslatable('loop increment is not ++v')
            bd = strip(c['inner'][1])
            if bd.get('kind') in ('CXXDependentScopeMemberExpr', 'DependentScopeDeclRefExpr') and trait_of(bd) == 'covariant_output_t':
                # the loop over the output components
                if self.qvar is not None:
                    raise Untranslatable('nested loops over the output components')
                self.qvar = v
                body_t = self.block(body)
                self.qvar = None
                return [f'LForQ [{"; ".join(body_t)}]']
            bound = self.nexp(bd)
            self.nvars.add(v)
            body_t = self.block(body)
            return [f'LFor {q(v)} {bound} [{"; ".join(body_t)}]']
        if k == 'IfStmt':
            c = strip(s['inner'][0])
            if not (c.get('kind') == 'BinaryOperator' and c.get('opcode') == '&'):
                raise Untranslatable('if condition is not a bit test')
            a = self.block(s['inner'][1])
            b = self.block(s['inner'][2]) if len(s['inner']) > 2 else []
            return [f'LIfBit {self.nexp(c["inner"][0])} {self.nexp(c["inner"][1])} [{"; ".join(a)}] [{"; ".join(b)}]']
        if k == 'CompoundAssignOperator':
            l = strip(s['inner'][0])
            if s.get('opcode') == '*=' and l.get('kind') == 'DeclRefExpr' and l['referencedDecl']['name'] in self.fvars:
                return [f'LMulF {q(l["referencedDecl"]["name"])} {self.fexp(s["inner"][1])}']
            if s.get('opcode') == '+=' and l.get('kind') == 'ArraySubscriptExpr' and ref(l['inner'][0]) == 'rv' and ref(l['inner'][1]) == self.qvar and self.qvar:
                return [f'LAccRv {self.fexp(s["inner"][1])}']
            raise Untranslatable(f'compound assignment {s.get("opcode")}')
        if k == 'BinaryOperator' and s.get('opcode') == '=':
            l = strip(s['inner'][0])
            r = s['inner'][1]
            if l.get('kind') != 'ArraySubscriptExpr':
                raise Untranslatable(f'assignment to {l.get("kind")}')
            a = ref(l['inner'][0])
            if a == 'rv':
                if ref(l['inner'][1]) != self.qvar or not self.qvar:
                    raise Untranslatable('rv is not indexed by the component loop variable')
                rr = strip(r)
                if rr.get('kind') in ('FloatingLiteral', 'IntegerLiteral'):
                    v = float(rr['value'])
                    if v not in (0.0, 1.0):
                        raise Untranslatable(f'literal {rr["value"]}')
                    return [f'LSetRvLit {"true" if v == 1.0 else "false"}']
                return [f'LSetRv {self.fexp(r)}']
            if a == 'pc':
                n = self.nexp(l['inner'][1])
                call = strip(r)
                if call.get('kind') != 'CallExpr':
                    raise Untranslatable('pc[n] is not assigned a call')
                callee = strip(call['inner'][0])
                base = strip(callee['inner'][0]) if callee.get('inner') else {}
                if not (callee.get('kind') == 'CXXDependentScopeMemberExpr' and callee.get('member') == 'at' and base.get('kind') == 'MemberExpr' and base.get('name') == 'm_backend' and len(call['inner']) == 2):
                    raise Untranslatable('pc[n] is not m_backend.at(...)')
                arg = strip(call['inner'][1])
                if arg.get('kind') == 'InitListExpr':
                    return [f'LFetch {n} [{"; ".join(self.cexp(x) for x in arg["inner"])}]']
                if arg.get('kind') == 'CallExpr':
                    hc = strip(arg['inner'][0])
                    b0 = SRC['text'][hc['range']['begin'].get('offset', 0):][:40] if SRC['text'] and 'offset' in hc.get('range', {}).get('begin', {}) else ''
                    if '_backend_index_helper' not in b0 and hc.get('name') != '_backend_index_helper' and hc.get('member') != '_backend_index_helper':
                        raise Untranslatable('pc[n] = m_backend.at(f(...)) with f not _backend_index_helper')
                    args = arg['inner'][1:]
                    seq = strip(args[2]) if len(args) == 3 else {}
                    if not (len(args) == 3 and ref(args[0]) in self.iarrs and self.nexp(args[1]) == n and 'make_index_sequence<contravariant_input_t::dimensions>' in seq.get('type', {}).get('qualType', '')):
                        raise Untranslatable('arguments of _backend_index_helper')
                    return [f'LFetchHelper {n} {q(ref(args[0]))}']
                raise Untranslatable('argument of m_backend.at')
            if a in self.iarrs:
                rr = strip(r)
                if rr.get('kind') == 'CXXStaticCastExpr' and 'contravariant_output_t::scalar_t' in rr['type']['qualType']:
                    c = strip(rr['inner'][0])
                    if c.get('kind') == 'ArraySubscriptExpr' and ref(c['inner'][0]) == 'coord':
                        return [f'LSetI {q(a)} {self.nexp(l["inner"][1])} {self.nexp(c["inner"][1])}']
                    if c.get('kind') == 'CallExpr' and len(c['inner']) == 2:
                        # static_cast<index>(std::lrint(c[k])): which overload is chosen is Gen_Nearest's business
                        f = strip(c['inner'][0])
                        fname = f.get('name') or f.get('referencedDecl', {}).get('name')
                        arg = strip(c['inner'][1])
                        if fname == 'lrint' and arg.get('kind') == 'ArraySubscriptExpr' and ref(arg['inner'][0]) == self.coord_name:
                            return [f'LSetIRound {q(a)} {self.nexp(l["inner"][1])} {self.nexp(arg["inner"][1])}']
                        raise Untranslatable(f'{a}[k] = static_cast<index>({fname}(...))')
                raise Untranslatable(f'{a}[k] is not static_cast<index>(coord[k])')
            if a in self.farrs:
                return [f'LSetF {q(a)} {self.nexp(l["inner"][1])} {self.fexp(r)}']
            raise Untranslatable(f'assignment to {a}[..]')
        if k == 'ReturnStmt':
            if ref(s['inner'][0]) == 'rv':
                return []
            call = strip(s['inner'][0])
            if call.get('kind') == 'CallExpr' and len(call['inner']) == 2:
                callee = strip(call['inner'][0])
                base = strip(callee['inner'][0]) if callee.get('inner') else {}
                if callee.get('kind') == 'CXXDependentScopeMemberExpr' and callee.get('member') == 'at' and base.get('kind') == 'MemberExpr' and base.get('name') == 'm_backend' and ref(call['inner'][1]) in self.iarrs:
                    return [f'LQuery {q(ref(call["inner"][1]))}']
            raise Untranslatable('return of something other than rv')
        raise Untranslatable(f'statement {k} {s.get("opcode", "")}')


def find_methods(d, name, out):
    if isinstance(d, dict):
        if d.get('kind') == 'CXXMethodDecl' and d.get('name') == name and any(c.get('kind') == 'CompoundStmt' for c in d.get('inner', [])):
            out.append(d)
        for c in d.get('inner', []):
            find_methods(c, name, out)
    return out


def main(repo, out):
    rep = {'branches': [], 'untranslatable': []}
    hdr = 'covfie/core/backend/transformer/linear.hpp'
    SRC['text'] = open(os.path.join(repo, 'lib', 'core', hdr), 'rb').read().decode('utf-8', 'replace')
    with tempfile.TemporaryDirectory() as td:
        tu = os.path.join(td, 'tu.cpp')
        open(tu, 'w').write(f'#include <{hdr}>\n')
        p = subprocess.run(['clang++', '-std=c++20', '-DNDEBUG', '-I' + os.path.join(repo, 'lib', 'core'), '-fsyntax-only', '-Xclang', '-ast-dump=json',
                            '-Xclang', '-ast-dump-filter=covfie::backend::linear', tu], stdout=subprocess.PIPE, stderr=subprocess.PIPE, text=True, timeout=180)
    txt = p.stdout
    dec = json.JSONDecoder()
    objs, i = [], 0
    while i < len(txt):
        while i < len(txt) and txt[i].isspace():
            i += 1
        if i >= len(txt):
            break
        o, j = dec.raw_decode(txt, i)
        objs.append(o)
        i = j
    defs = []
    helper_def = 'None'
    try:
        hs = []
        for o in objs:
            find_methods(o, '_backend_index_helper', hs)
        if len(hs) == 1:
            body = [c for c in hs[0]['inner'] if c.get('kind') == 'CompoundStmt'][0]
            r = strip(body['inner'][0]['inner'][0]) if body.get('inner') and body['inner'][0].get('kind') == 'ReturnStmt' else {}
            pk = strip(r['inner'][0]) if r.get('kind') == 'InitListExpr' and len(r.get('inner', [])) == 1 else {}
            if pk.get('kind') != 'PackExpansionExpr':
                raise Untranslatable('_backend_index_helper does not return { E(Is)... }')
            params = [x.get('name') for x in hs[0]['inner'] if x.get('kind') == 'ParmVarDecl']
            if params[:2] != ['coord', 'n']:
                raise Untranslatable(f'_backend_index_helper parameters {params}')
            helper_def = '(Some ' + Br().cexp(pk['inner'][0]) + ')'
        elif hs:
            raise Untranslatable(f'{len(hs)} definitions of _backend_index_helper')
    except Untranslatable as e:
        rep['untranslatable'].append({'name': 'linear::_backend_index_helper', 'why': str(e)})
    dims = []
    try:
        ats = []
        for o in objs:
            find_methods(o, 'at', ats)
        if len(ats) != 1:
            raise Untranslatable(f'{len(ats)} definitions of linear::non_owning_data_t::at')
        body = [c for c in ats[0]['inner'] if c.get('kind') == 'CompoundStmt'][0]
        if len(body['inner']) != 1 or body['inner'][0].get('kind') != 'IfStmt':
            raise Untranslatable('the body of at is not one if-constexpr chain')
        node = body['inner'][0]
        branches = []
        while node.get('kind') == 'IfStmt':
            if not node.get('isConstexpr'):
                raise Untranslatable('a branch is not if constexpr')
            c = strip(node['inner'][0])
            l, r = strip(c['inner'][0]), strip(c['inner'][1])
            if not (c.get('kind') == 'BinaryOperator' and c.get('opcode') == '==' and r.get('kind') == 'IntegerLiteral' and trait_of(l) == 'contravariant_input_t'):
                raise Untranslatable('branch condition is not contravariant_input_t::dimensions == K')
            branches.append((int(r['value']), node['inner'][1]))
            if len(node['inner']) < 3:
                raise Untranslatable('no final else branch')
            node = node['inner'][2]
        branches.append((None, node))
        for kdim, blk in branches:
            name = f'lin_branch_{kdim}' if kdim is not None else 'lin_branch_generic'
            try:
                stmts = Br().block(blk)
                defs.append(f'Definition {name} : branch := {{| br_body := [\n    ' + ';\n    '.join(stmts) + f'];\n  br_helper := {helper_def} |}}.')
                rep['branches'].append({'dimensions': kdim, 'as': name, 'statements': len(stmts)})
                if kdim is not None:
                    dims.append(kdim)
            except Untranslatable as e:
                rep['untranslatable'].append({'name': f'linear::at, branch dimensions == {kdim}' if kdim else 'linear::at, generic branch', 'why': str(e)})
                defs.append(f'(* {name}: NOT TRANSLATED -- {e} *)')
    except Untranslatable as e:
        rep['untranslatable'].append({'name': 'linear::non_owning_data_t::at', 'why': str(e)})
    # nearest_neighbour::non_owning_data_t::at  (its own generated file: Gen_NearestAt.v next to the output)
    ndefs = []
    try:
        nhdr = 'covfie/core/backend/transformer/nearest_neighbour.hpp'
        SRC['text'] = open(os.path.join(repo, 'lib', 'core', nhdr), 'rb').read().decode('utf-8', 'replace')
        with tempfile.TemporaryDirectory() as td:
            tu = os.path.join(td, 'tu.cpp')
            open(tu, 'w').write(f'#include <{nhdr}>\n')
            p2 = subprocess.run(['clang++', '-std=c++20', '-DNDEBUG', '-I' + os.path.join(repo, 'lib', 'core'), '-fsyntax-only', '-Xclang', '-ast-dump=json',
                                 '-Xclang', '-ast-dump-filter=covfie::backend::nearest_neighbour', tu], stdout=subprocess.PIPE, stderr=subprocess.PIPE, text=True, timeout=180)
        nobjs, i = [], 0
        while i < len(p2.stdout):
            while i < len(p2.stdout) and p2.stdout[i].isspace():
                i += 1
            if i >= len(p2.stdout):
                break
            o, j = dec.raw_decode(p2.stdout, i)
            nobjs.append(o)
            i = j
        nats = []
        for o in nobjs:
            find_methods(o, 'at', nats)
        if len(nats) != 1:
            raise Untranslatable(f'{len(nats)} definitions of nearest_neighbour::non_owning_data_t::at')
        params = [x.get('name') for x in nats[0]['inner'] if x.get('kind') == 'ParmVarDecl']
        br = Br()
        br.coord_name = params[0] if params else 'c'
        stmts = br.block([c for c in nats[0]['inner'] if c.get('kind') == 'CompoundStmt'][0])
        ndefs.append('Definition nn_at : branch := {| br_body := [\n    ' + ';\n    '.join(stmts) + '];\n  br_helper := None |}.')
        rep['branches'].append({'dimensions': 'nearest_neighbour::at', 'as': 'nn_at', 'statements': len(stmts)})
    except Untranslatable as e:
        rep['untranslatable'].append({'name': 'nearest_neighbour::non_owning_data_t::at', 'why': str(e)})
        ndefs.append(f'(* nn_at: NOT TRANSLATED -- {e} *)')
    defs.append('(* the dimensions that have a specialised branch, in the order of the if-constexpr chain *)\nDefinition lin_specialised_dims : list nat := [' + '; '.join(map(str, dims)) + '].')
    out_txt = ('(* GENERATED by tools/cxx_linear.py from backend/transformer/linear.hpp -- do not edit.\n   The branches of linear::non_owning_data_t::at as terms of LinLang.v. *)\n'
               'From Coq Require Import String List.\nFrom Covfie Require Import LinLang.\nImport ListNotations.\nLocal Open Scope string_scope.\n\n' + '\n\n'.join(defs) + '\n')
    os.makedirs(os.path.dirname(out), exist_ok=True)
    open(out, 'w').write(out_txt)
    open(os.path.join(os.path.dirname(out), 'Gen_NearestAt.v'), 'w').write(
        '(* GENERATED by tools/cxx_linear.py from backend/transformer/nearest_neighbour.hpp -- do not edit.\n   nearest_neighbour::non_owning_data_t::at as a term of LinLang.v. *)\n'
        'From Coq Require Import String List.\nFrom Covfie Require Import LinLang.\nImport ListNotations.\nLocal Open Scope string_scope.\n\n' + '\n\n'.join(ndefs) + '\n')
    SRC['text'] = None
    return rep


if __name__ == '__main__':
    print(json.dumps(main(sys.argv[1], sys.argv[2])))
