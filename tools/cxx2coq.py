#!/usr/bin/env python3
"""cxx2coq.py -- translate the integer kernels of covfie from clang's JSON AST of the
*uninstantiated templates* into Gallina over coq/CKernel.v.

The translator is a tree walker with a name table.  All C++ typing rules live in
CKernel.v (integral promotion, usual arithmetic conversions, modular conversion,
UB for signed overflow / shift range / division by zero / subscript range); what this
file decides is only *which* CKernel operator an AST node maps to.

Anything outside the accepted subset raises Untranslatable; the caller turns that
into `(* UNTRANSLATABLE ... *)` plus a non-zero status, which the checks treat as a
broken proof obligation, never as a pass.

Usage: cxx2coq.py --repo /repo --out /verif/coq/gen [--jobs 8]
Writes Gen_<Group>.v files (only when their content changes) and gen_report.json.
"""
import argparse, hashlib, json, os, re, subprocess, sys, tempfile
from concurrent.futures import ThreadPoolExecutor

CLANG = 'clang++'

# ---------------------------------------------------------------------------------
# kernel table: what to translate, from which header, under which pre-processor flags
# ---------------------------------------------------------------------------------
CORE = 'lib/core/covfie/core/'
KERNELS = [
    # group, coq name, header, clang filter, enclosing-record check, extra flags
    dict(group='Numeric', name='gen_round_pow2', header='utility/numeric.hpp',
         filter='covfie::utility::round_pow2', flags=['-DNDEBUG']),
    dict(group='Numeric', name='gen_ipow', header='utility/numeric.hpp',
         filter='covfie::utility::ipow', flags=['-DNDEBUG']),
    dict(group='Strided', name='gen_strided_at', header='backend/transformer/strided.hpp',
         filter='covfie::backend::strided::non_owning_data_t::at', flags=['-DNDEBUG']),
    dict(group='Strided', name='gen_strided_at_dbg', header='backend/transformer/strided.hpp',
         filter='covfie::backend::strided::non_owning_data_t::at', flags=[]),
    dict(group='Strided', name='gen_strided_copy_index', header='backend/transformer/strided.hpp',
         filter='covfie::backend::strided::make_strided_copy', flags=['-DNDEBUG'],
         lambda_body=True, stop_at_loop=2),
    dict(group='Morton', name='gen_morton_index', header='backend/transformer/morton.hpp',
         filter='covfie::backend::morton::calculate_index', flags=['-DNDEBUG']),
    dict(group='Morton', name='gen_morton_index_bmi2', header='backend/transformer/morton.hpp',
         filter='covfie::backend::morton::calculate_index', flags=['-DNDEBUG', '-mbmi2']),
    dict(group='Morton', name='gen_morton_at_dbg', header='backend/transformer/morton.hpp',
         filter='covfie::backend::morton::non_owning_data_t::at', flags=[]),
    dict(group='Hilbert', name='gen_hilbert_rot', header='backend/transformer/hilbert.hpp',
         filter='covfie::backend::hilbert::rot', flags=['-DNDEBUG']),
    dict(group='Hilbert', name='gen_hilbert_index', header='backend/transformer/hilbert.hpp',
         filter='covfie::backend::hilbert::calculate_index', flags=['-DNDEBUG']),
    dict(group='HilbertAt', name='gen_hilbert_at', header='backend/transformer/hilbert.hpp',
         filter='covfie::backend::hilbert::non_owning_data_t::at', flags=['-DNDEBUG']),
    dict(group='Backup', name='gen_backup_at', header='backend/transformer/backup.hpp',
         filter='covfie::backend::backup::non_owning_data_t::at', flags=['-DNDEBUG'], outcome=True),
]

TYPES = {
    'std::size_t': 'U64', 'size_t': 'U64', 'unsigned long': 'U64', 'uint64_t': 'U64',
    'long': 'I64', 'int': 'I32', 'unsigned int': 'U32', 'unsigned': 'U32', 'bool': 'CBool',
    'T': 'T',
    'typename contravariant_input_t::scalar_t': 'S_in',
    'typename contravariant_output_t::scalar_t': 'S_idx',
}
TYPE_PARAMS = ('T', 'S_in', 'S_idx')
ARRAY_T = ('coordinate_t', 'vector_t', 'nd_size', 'configuration_t', 'decltype(sizes)')
DEP = {
    'contravariant_input_t::dimensions': 'dims_in',
    'contravariant_output_t::dimensions': 'dims_idx',
    'covariant_output_t::dimensions': 'dims_out',
}
AOP = {'+': 'Add', '-': 'Sub', '*': 'Mul', '/': 'Div', '%': 'Rem', '&': 'And', '|': 'Or', '^': 'Xor'}
COP = {'<': 'Lt', '<=': 'Le', '>': 'Gt', '>=': 'Ge', '==': 'Eq', '!=': 'Ne'}
# canonical order of the free parameters of a generated definition
PARAM_ORDER = ['T', 'S_in', 'S_idx', 'use_bmi2', 'dims_in', 'dims_idx', 'dims_out', 'sizeof_idx', 'fuel']


class Untranslatable(Exception):
    pass


def load_docs(text):
    dec = json.JSONDecoder()
    i = 0
    docs = []
    while i < len(text):
        while i < len(text) and text[i] in ' \n\r\t':
            i += 1
        if i >= len(text):
            break
        if text[i] != '{':
            j = text.find('\n', i)
            i = j + 1 if j > 0 else len(text)
            continue
        d, j = dec.raw_decode(text, i)
        docs.append(d)
        i = j
    return docs


def find_fn(d, want_lambda=False):
    """first function-like node with a body, depth first"""
    if d is None:
        return None
    if d.get('kind') in ('FunctionDecl', 'CXXMethodDecl') and any(
            c and c.get('kind') == 'CompoundStmt' for c in d.get('inner', [])):
        return d
    for c in d.get('inner', []):
        r = find_fn(c)
        if r:
            return r
    return None


def find_kind(d, kind):
    if d is None:
        return None
    if d.get('kind') == kind:
        return d
    for c in d.get('inner', []):
        r = find_kind(c, kind)
        if r:
            return r
    return None


class Tr:
    def __init__(self, fn, src, where):
        self.fn = fn
        self.src = src
        self.where = where
        self.n = 0
        self.free = {}      # free parameter name -> coq type
        self.vt = {}        # variable -> coq cty expression (declared type)
        self.arrays = set() # names that are arrays (list tv)
        self.calls = set()  # generated callees referenced
        self.outcome = False  # return statements produce Query / Value outcomes

    # -- helpers -------------------------------------------------------------
    def fresh(self):
        self.n += 1
        return f't{self.n}'

    def loc(self, n):
        r = n.get('range', {}).get('begin', {}) if n else {}
        line = r.get('line') or r.get('expansionLoc', {}).get('line') or r.get('spellingLoc', {}).get('line')
        return f'{self.where}:{line or "?"}'

    def fail(self, n, msg):
        raise Untranslatable(f'{self.loc(n)} {msg}')

    def cty(self, q, n=None):
        q = q.replace('const ', '').replace('&', '').strip()
        if q in TYPES:
            t = TYPES[q]
            if t in TYPE_PARAMS:
                self.free[t] = 'cty'
            return t
        self.fail(n, 'type ' + q)

    def text(self, n):
        r = n['range']
        b = r['begin'].get('offset')
        e = r['end'].get('offset')
        if b is None or e is None:
            self.fail(n, 'no source range')
        return self.src[b:e + r['end'].get('tokLen', 0)]

    def dep(self, n):
        t = re.sub(r'\s+', '', self.text(n)).replace('typename', '')
        for k, v in DEP.items():
            if t.endswith(k):
                self.free[v] = 'Z'
                return f'(lit U64 {v})'
        if t == 'use_bmi2':
            self.free['use_bmi2'] = 'bool'
            return '(lit CBool (if use_bmi2 then 1 else 0))'
        self.fail(n, 'dependent name ' + t)

    # -- expressions: returns (binds, atom) ------------------------------------
    def expr(self, n):
        k = n['kind']
        inner = [c for c in n.get('inner', [])]
        if k in ('ParenExpr', 'ConstantExpr', 'ExprWithCleanups', 'MaterializeTemporaryExpr'):
            return self.expr(inner[0])
        if k == 'IntegerLiteral':
            return [], f"(lit {self.cty(n['type']['qualType'], n)} {n['value']})"
        if k == 'CXXBoolLiteralExpr':
            return [], f"(lit CBool {1 if n['value'] else 0})"
        if k == 'DeclRefExpr':
            nm = n['referencedDecl']['name']
            if n['referencedDecl'].get('kind') == 'NonTypeTemplateParmDecl':
                if nm == 'use_bmi2':
                    self.free['use_bmi2'] = 'bool'
                    return [], '(lit CBool (if use_bmi2 then 1 else 0))'
                self.fail(n, 'template parameter ' + nm)
            if nm not in self.vt and nm not in self.arrays:
                self.fail(n, 'unknown variable ' + nm)
            return [], nm
        if k == 'MemberExpr':
            if not inner or inner[0]['kind'] != 'CXXThisExpr':
                self.fail(n, 'member of non-this')
            nm = n['name']
            self.free[nm] = 'list tv'
            self.arrays.add(nm)
            return [], nm
        if k == 'ImplicitCastExpr':
            b, a = self.expr(inner[0])
            ck = n['castKind']
            if ck in ('IntegralCast', 'IntegralToBoolean'):
                t = self.cty(n['type']['qualType'], n)
                if ck == 'IntegralToBoolean' or t == 'CBool':
                    return b, f"(to_bool {a})"
                return b, f"(cast {t} {a})"
            if ck in ('LValueToRValue', 'NoOp', 'Dependent', 'FunctionToPointerDecay', 'ArrayToPointerDecay'):
                return b, a
            self.fail(n, 'implicit cast ' + ck)
        if k in ('CXXStaticCastExpr', 'CXXFunctionalCastExpr', 'CStyleCastExpr'):
            b, a = self.expr(inner[0])
            t = self.cty(n['type']['qualType'], n)
            if t == 'CBool':
                return b, f"(to_bool {a})"
            return b, f"(cast {t} {a})"
        if k in ('DependentScopeDeclRefExpr', 'CXXDependentScopeMemberExpr'):
            return [], self.dep(n)
        if k == 'UnaryExprOrTypeTraitExpr' and n.get('name') == 'sizeof':
            t = re.sub(r'\s+', '', self.text(n))
            if 'contravariant_output_t::scalar_t' in t:
                self.free['sizeof_idx'] = 'Z'
                return [], '(lit U64 sizeof_idx)'
            self.fail(n, 'sizeof ' + t)
        if k == 'ArraySubscriptExpr':
            b1, a1 = self.expr(inner[0])
            b2, a2 = self.expr(inner[1])
            if a1 not in self.arrays:
                self.fail(n, 'subscript of non-array ' + a1)
            t = self.fresh()
            return b1 + b2 + [f'{t} <- nth_tv {a1} {a2}'], t
        if k == 'UnaryOperator':
            op = n['opcode']
            if op == '*':
                return self.expr(inner[0])
            if op == '!':
                b, a = self.expr(inner[0])
                return b, f'(lnot {a})'
            if op == '-':
                b, a = self.expr(inner[0])
                t = self.fresh()
                return b + [f'{t} <- arith Sub (lit I32 0) {a}'], t
            self.fail(n, 'unary ' + op)
        if k == 'BinaryOperator':
            op = n['opcode']
            if op in ('||', '&&'):
                # short-circuit: the right operand is evaluated only when needed
                b1, a1 = self.expr(inner[0])
                b2, a2 = self.expr(inner[1])
                t = self.fresh()
                rhs = self.wrap_binds(b2, f'Ok (to_bool {a2})')
                if op == '||':
                    return b1 + [f'{t} <- (if truthy {a1} then Ok (lit CBool 1) else {rhs})'], t
                return b1 + [f'{t} <- (if truthy {a1} then {rhs} else Ok (lit CBool 0))'], t
            b1, a1 = self.expr(inner[0])
            b2, a2 = self.expr(inner[1])
            t = self.fresh()
            if op in AOP:
                return b1 + b2 + [f'{t} <- arith {AOP[op]} {a1} {a2}'], t
            if op in COP:
                return b1 + b2 + [f'{t} <- cmp {COP[op]} {a1} {a2}'], t
            if op == '<<':
                return b1 + b2 + [f'{t} <- shl {a1} {a2}'], t
            if op == '>>':
                return b1 + b2 + [f'{t} <- shr {a1} {a2}'], t
            self.fail(n, 'binop ' + op)
        if k == 'ConditionalOperator':
            bc, ac = self.expr(inner[0])
            b1, a1 = self.expr(inner[1])
            b2, a2 = self.expr(inner[2])
            t = self.fresh()
            return bc + [f'{t} <- (if truthy {ac} then {self.wrap_binds(b1, "Ok " + a1)} else {self.wrap_binds(b2, "Ok " + a2)})'], t
        if k == 'CallExpr':
            callee = inner[0]
            # backend query: m_storage.at({idx}) / m_backend.at(c) / m_storage.at(calculate_index(c))
            if callee['kind'] == 'CXXDependentScopeMemberExpr' and callee.get('member') == 'at':
                arg = inner[1]
                if arg['kind'] == 'InitListExpr':
                    arg = arg['inner'][0]
                return self.expr(arg)
            nm = self.callee_name(callee)
            if nm == 'calculate_index':
                args = []
                binds = []
                for a in inner[1:]:
                    b, x = self.expr(a)
                    binds += b
                    args.append(x)
                self.calls.add('calculate_index')
                t = self.fresh()
                return binds + [f'{t} <- CALL_calculate_index {" ".join(args)}'], t
            if nm == 'round_pow2':
                # utility::round_pow2(e): T is deduced from the argument, i.e. the type the value has
                b, a = self.expr(inner[1])
                self.free['fuel'] = 'nat'
                t = self.fresh()
                return b + [f'{t} <- gen_round_pow2 (ty {a}) fuel {a}'], t
            if nm == 'compute':
                # morton_pdep_mask<..>::compute(c): hand-written pdep model (PdepModel.v)
                txt = re.sub(r'\s+', '', self.text(callee))
                if 'morton_pdep_mask' not in txt:
                    self.fail(n, 'call ' + txt)
                b, a = self.expr(inner[1])
                self.free['dims_in'] = 'Z'
                t = self.fresh()
                return b + [f'{t} <- pdep_compute dims_in {a}'], t
            self.fail(n, 'call to ' + str(nm))
        self.fail(n, 'expression ' + k)

    def callee_name(self, c):
        while c and c['kind'] in ('ImplicitCastExpr', 'ParenExpr'):
            c = c['inner'][0]
        if not c:
            return None
        if 'referencedDecl' in c:
            return c['referencedDecl'].get('name')
        if c['kind'] == 'UnresolvedLookupExpr':
            return c.get('name')
        if c['kind'] in ('DependentScopeDeclRefExpr', 'CXXDependentScopeMemberExpr'):
            t = re.sub(r'\s+', '', self.text(c))
            return t.split('::')[-1]
        return None

    def wrap_binds(self, binds, final):
        if not binds:
            return '(' + final + ')'
        return '(' + ' ;; '.join(binds) + ' ;; ' + final + ')'

    # -- statements ------------------------------------------------------------
    def lhs(self, n):
        while n['kind'] in ('ParenExpr', 'ImplicitCastExpr') or (
                n['kind'] == 'UnaryOperator' and n['opcode'] == '*'):
            n = n['inner'][0]
        if n['kind'] == 'DeclRefExpr':
            return n['referencedDecl']['name']
        self.fail(n, 'assignment target ' + n['kind'])

    def is_assert(self, n):
        """(static_cast<bool>(e) ? void(0) : __assert_fail(...)) -> e"""
        while n and n['kind'] == 'ParenExpr':
            n = n['inner'][0]
        if n and n['kind'] == 'ConditionalOperator':
            f = n['inner'][2]
            if f['kind'] == 'CallExpr' and self.callee_name(f['inner'][0]) == '__assert_fail':
                return n['inner'][0]
        return None

    def assigned(self, n, acc, declared):
        k = n.get('kind')
        if k == 'VarDecl':
            declared.add(n['name'])
        if k == 'CompoundAssignOperator' or (k == 'BinaryOperator' and n.get('opcode') == '=') or (
                k == 'UnaryOperator' and n.get('opcode') in ('++', '--')):
            try:
                acc.append(self.lhs(n['inner'][0]))
            except Untranslatable:
                pass
        if k == 'CallExpr' and self.callee_name(n['inner'][0]) == 'rot':
            for a in n['inner'][1:]:
                if a['kind'] == 'UnaryOperator' and a['opcode'] == '&':
                    acc.append(self.lhs(a['inner'][0]))
        for c in n.get('inner', []):
            if c:
                self.assigned(c, acc, declared)

    def wset(self, nodes):
        acc = []
        decl = set()
        for n in nodes:
            if n:
                self.assigned(n, acc, decl)
        out = []
        for v in acc:
            if v not in decl and v not in out:
                out.append(v)
        return out

    def has_return(self, n):
        if not n:
            return False
        if n.get('kind') == 'ReturnStmt':
            return True
        if n.get('kind') == 'LambdaExpr':
            return False
        return any(self.has_return(c) for c in n.get('inner', []) if c)

    def mentions(self, n, names):
        if not n:
            return False
        if n.get('kind') == 'DeclRefExpr' and n['referencedDecl']['name'] in names:
            return True
        return any(self.mentions(c, names) for c in n.get('inner', []) if c)

    def tup(self, ws):
        if not ws:
            return 'tt'
        return ws[0] if len(ws) == 1 else '(' + ', '.join(ws) + ')'

    def pat(self, ws):
        if not ws:
            return '_'
        return ws[0] if len(ws) == 1 else "'(" + ', '.join(ws) + ')'

    def emitb(self, binds, ind):
        return ''.join(' ' * ind + b + ' ;;\n' for b in binds)

    def canonical_for(self, s):
        """for (size_t i = E0; i < B; ++i) body, B invariant, i not assigned in body"""
        init, _, cond, inc, body = s['inner']
        if not init or init['kind'] != 'DeclStmt' or len(init['inner']) != 1:
            return None
        v = init['inner'][0]
        if 'inner' not in v:
            return None
        try:
            t = self.cty(v['type']['qualType'])
        except Untranslatable:
            return None
        if t != 'U64':
            return None
        i = v['name']
        if not cond or cond['kind'] != 'BinaryOperator' or cond['opcode'] != '<':
            return None
        l = cond['inner'][0]
        while l['kind'] in ('ImplicitCastExpr', 'ParenExpr'):
            l = l['inner'][0]
        if l['kind'] != 'DeclRefExpr' or l['referencedDecl']['name'] != i:
            return None
        if not inc or inc['kind'] != 'UnaryOperator' or inc['opcode'] != '++':
            return None
        if self.lhs(inc['inner'][0]) != i:
            return None
        ws = self.wset([body])
        if i in ws:
            return None
        bound = cond['inner'][1]
        if self.mentions(bound, set(ws) | {i}):
            return None
        return i, v['inner'][0], bound, body, ws

    def seq(self, stmts, cont, ind, ret=None):
        """translate a statement list; `cont` is the Coq term for what follows.
        ret: None (return = function result `Ok v`) or a function mapping the returned atom
        to the Coq term (used inside loops with early return)."""
        if not stmts:
            return ' ' * ind + cont + '\n'
        s = stmts[0]
        rest = stmts[1:]
        k = s['kind'] if s else 'NullStmt'
        I = ' ' * ind
        if k == 'NullStmt':
            return self.seq(rest, cont, ind, ret)
        if k == 'CompoundStmt':
            return self.seq([c for c in s.get('inner', [])] + rest, cont, ind, ret)
        a = self.is_assert(s)
        if a is not None:
            b, x = self.expr(a)
            return self.emitb(b + [f'_ <- assert_ {x}'], ind) + self.seq(rest, cont, ind, ret)
        if k == 'DeclStmt':
            out = ''
            for v in s['inner']:
                q = v['type']['qualType']
                if any(x in q for x in ARRAY_T):
                    self.fail(v, 'local array ' + v['name'])
                t = self.cty(q, v)
                self.vt[v['name']] = t
                if 'inner' in v:
                    b, a = self.expr(v['inner'][0])
                    out += self.emitb(b, ind) + I + f"let {v['name']} := cast {t} {a} in\n"
                else:
                    # declared without initialiser: the value is indeterminate; the translator
                    # proves (syntactically) that it is assigned before it is read, see check_indet
                    self.check_indet(v['name'], rest, v)
                    out += I + f"let {v['name']} := lit {t} 0 in (* indeterminate, assigned before use *)\n"
            return out + self.seq(rest, cont, ind, ret)
        if k == 'BinaryOperator' and s['opcode'] == '=':
            x = self.lhs(s['inner'][0])
            b, a = self.expr(s['inner'][1])
            return self.emitb(b, ind) + I + f"let {x} := cast {self.vt[x]} {a} in\n" + self.seq(rest, cont, ind, ret)
        if k == 'CompoundAssignOperator':
            x = self.lhs(s['inner'][0])
            b, a = self.expr(s['inner'][1])
            op = s['opcode'][:-1]
            t = self.fresh()
            if op in AOP:
                call = f'arith {AOP[op]} {x} {a}'
            elif op == '<<':
                call = f'shl {x} {a}'
            elif op == '>>':
                call = f'shr {x} {a}'
            else:
                self.fail(s, 'compound op ' + op)
            return self.emitb(b + [f'{t} <- {call}'], ind) + I + f"let {x} := cast {self.vt[x]} {t} in\n" + self.seq(rest, cont, ind, ret)
        if k == 'UnaryOperator' and s['opcode'] in ('++', '--'):
            x = self.lhs(s['inner'][0])
            t = self.fresh()
            op = 'Add' if s['opcode'] == '++' else 'Sub'
            return I + f"{t} <- arith {op} {x} (lit I32 1) ;;\n" + I + f"let {x} := cast {self.vt[x]} {t} in\n" + self.seq(rest, cont, ind, ret)
        if k == 'ForStmt':
            return self.for_stmt(s, rest, cont, ind, ret)
        if k == 'IfStmt':
            inner = s['inner']
            cnd, th = inner[0], inner[1]
            el = inner[2] if len(inner) > 2 else None
            if s.get('isConstexpr') or True:
                pass
            b, a = self.expr(cnd)
            if self.has_return(th) or self.has_return(el):
                # a branch returns: duplicate the continuation into the non-returning paths
                rest_txt_t = self.seq([th] + rest, cont, ind + 4, ret)
                rest_txt_e = self.seq(([el] if el else []) + rest, cont, ind + 4, ret)
                return self.emitb(b, ind) + I + f"if truthy {a} then\n" + rest_txt_t + I + "else\n" + rest_txt_e
            ws = self.wset([th, el])
            if not ws:
                self.fail(s, 'if without effect')
            txt = self.emitb(b, ind) + I + f"{self.pat(ws)} <- (if truthy {a} then\n" + \
                self.seq([th], f"Ok {self.tup(ws)}", ind + 4, ret) + I + "  else\n" + \
                self.seq([el] if el else [], f"Ok {self.tup(ws)}", ind + 4, ret) + I + ") ;;\n"
            return txt + self.seq(rest, cont, ind, ret)
        if k == 'ReturnStmt':
            b, a = self.expr(s['inner'][0])
            if self.outcome:
                e = s['inner'][0]
                while e['kind'] in ('ExprWithCleanups', 'ImplicitCastExpr', 'ParenExpr', 'MaterializeTemporaryExpr'):
                    e = e['inner'][0]
                isq = e['kind'] == 'CallExpr' and e['inner'][0]['kind'] == 'CXXDependentScopeMemberExpr' \
                    and e['inner'][0].get('member') == 'at'
                a = f"(Query {a})" if isq else f"(Value {a})"
            fin = ret(a) if ret else f"Ok {a}"
            return self.emitb(b, ind) + I + fin + "\n"
        if k == 'CallExpr' and self.callee_name(s['inner'][0]) == 'rot':
            args = s['inner'][1:]
            outs, ins, binds = [], [], []
            for a in args:
                if a['kind'] == 'UnaryOperator' and a['opcode'] == '&':
                    v = self.lhs(a['inner'][0])
                    outs.append(v)
                    ins.append(v)
                else:
                    b, x = self.expr(a)
                    binds += b
                    ins.append(x)
            self.calls.add('rot')
            return self.emitb(binds, ind) + I + f"{self.pat(outs)} <- CALL_rot {' '.join(ins)} ;;\n" + self.seq(rest, cont, ind, ret)
        self.fail(s, 'statement ' + k)

    def check_indet(self, name, rest, node):
        """the first occurrence of `name` after its declaration, in evaluation order, must be
        an assignment target (in straight-line code or as the first statements of a loop body /
        the init of a for loop).  Conservative: anything else is rejected."""
        def first_use(n):
            # returns 'w' (written first), 'r' (read first), None (not mentioned)
            if not n:
                return None
            k = n.get('kind')
            if k == 'BinaryOperator' and n.get('opcode') == '=':
                r = first_use(n['inner'][1])
                if r:
                    return r
                try:
                    if self.lhs(n['inner'][0]) == name:
                        return 'w'
                except Untranslatable:
                    pass
                return first_use(n['inner'][0])
            if k == 'DeclRefExpr':
                return 'r' if n['referencedDecl']['name'] == name else None
            if k == 'ForStmt':
                init, _, cond, inc, body = n['inner']
                for part in (init, cond, body, inc):
                    r = first_use(part)
                    if r:
                        return r
                return None
            if k == 'IfStmt':
                r = first_use(n['inner'][0])
                if r:
                    return r
                rs = [first_use(c) for c in n['inner'][1:]]
                if 'r' in rs:
                    return 'r'
                if rs and all(x == 'w' for x in rs) and len(rs) == 2:
                    return 'w'
                return 'r' if any(rs) else None   # written on one path only: treat as unsafe
            for c in n.get('inner', []):
                r = first_use(c)
                if r:
                    return r
            return None
        for s in rest:
            r = first_use(s)
            if r == 'w':
                return
            if r == 'r':
                self.fail(node, f'variable {name} may be read while indeterminate')

    def for_stmt(self, s, rest, cont, ind, ret):
        I = ' ' * ind
        init, _, cond, inc, body = s['inner']
        early = self.has_return(body)
        can = self.canonical_for(s)
        if can:
            i, e0, bound, body, ws = can
            b0, a0 = self.expr(e0)
            bb, ab = self.expr(bound)
            lo, hi = self.fresh(), self.fresh()
            self.vt[i] = 'U64'
            txt = self.emitb(b0, ind) + I + f"let {lo} := cast U64 {a0} in\n"
            txt += self.emitb(bb, ind) + I + f"let {hi} := cast U64 {ab} in\n"
            if early:
                r = self.fresh()
                txt += I + f"{r} <- for_up_ret U64 {lo} {hi} (fun {i} {self.pat(ws)} =>\n"
                txt += self.seq([body], f"Ok (inl {self.tup(ws)})", ind + 4, ret=lambda a: f"Ok (inr {a})")
                txt += I + f"  ) {self.tup(ws)} ;;\n"
                txt += I + f"match {r} with inr v => " + (ret('v') if ret else 'Ok v') + f" | inl {self.pat(ws).lstrip(chr(39))} =>\n"
                txt += self.seq(rest, cont, ind + 2, ret) + I + "end\n"
                return txt
            txt += I + f"{self.pat(ws)} <- for_up U64 {lo} {hi} (fun {i} {self.pat(ws)} =>\n"
            txt += self.seq([body], f"Ok {self.tup(ws)}", ind + 4, ret)
            txt += I + f"  ) {self.tup(ws)} ;;\n"
            return txt + self.seq(rest, cont, ind, ret)
        if early:
            self.fail(s, 'early return in a non-canonical loop')
        # general loop with fuel
        def loop(ind2):
            ws = self.wset([cond, inc, body])
            if init and init['kind'] == 'DeclStmt':
                for v in init['inner']:
                    if v['name'] not in ws:
                        ws.append(v['name'])
            self.free['fuel'] = 'nat'
            b, a = self.expr(cond)
            J = ' ' * ind2
            txt = J + f"{self.pat(ws)} <- while_ fuel\n"
            txt += J + f"  (fun {self.pat(ws)} =>\n" + self.emitb(b, ind2 + 4) + ' ' * (ind2 + 4) + f"Ok (truthy {a}))\n"
            txt += J + f"  (fun {self.pat(ws)} =>\n" + self.seq([body] + ([inc] if inc else []), f"Ok {self.tup(ws)}", ind2 + 4, ret) + J + f"  ) {self.tup(ws)} ;;\n"
            return txt
        if init:
            marker = '@@LOOP@@'
            t = self.seq([init], marker, ind, ret)
            return t.replace(' ' * ind + marker + '\n', loop(ind) + self.seq(rest, cont, ind, ret))
        return loop(ind) + self.seq(rest, cont, ind, ret)

    # -- whole function -----------------------------------------------------------
    def function(self, name, body=None, params_from=None, stop_at_loop=None):
        fn = params_from or self.fn
        params = []
        inout = []
        for c in fn.get('inner', []):
            if c and c['kind'] == 'ParmVarDecl':
                q = c['type']['qualType']
                if q.endswith('*'):
                    t = self.cty(q[:-1].strip(), c)
                    self.vt[c['name']] = t
                    params.append(f"({c['name']} : tv)")
                    inout.append(c['name'])
                elif any(a in q for a in ARRAY_T):
                    params.append(f"({c['name']} : list tv)")
                    self.arrays.add(c['name'])
                else:
                    t = self.cty(q, c)
                    self.vt[c['name']] = t
                    params.append(f"({c['name']} : tv)")
            if c and c['kind'] == 'CompoundStmt' and body is None:
                body = c
        stmts = [c for c in body.get('inner', [])]
        if stop_at_loop is not None:
            # keep everything up to (not including) the stop_at_loop-th top-level for statement,
            # and return the variable `idx` (used for the index computation inside a copy lambda)
            out = []
            nloops = 0
            for st in stmts:
                if st and st['kind'] == 'ForStmt':
                    nloops += 1
                    if nloops == stop_at_loop:
                        break
                out.append(st)
            # declarations between the last kept loop and the stopping loop belong to what follows (e.g. the
            # coordinate handed to the source's lookup), not to the index computation
            while out and out[-1] and out[-1]['kind'] == 'DeclStmt' and any(x and x['kind'] == 'ForStmt' for x in out):
                out.pop()
            stmts = out
            cont = 'Ok idx'
        else:
            cont = f"Ok {self.tup(inout)}" if inout else 'UB FellOffEnd'
        code = self.seq(stmts, cont, 2)
        rty = 'res outcome' if self.outcome else 'res ' + ('tv' if len(inout) <= 1 else '(' + ' * '.join(['tv'] * len(inout)) + ')')
        return dict(name=name, free=dict(self.free), params=params, rty=rty, code=code, calls=set(self.calls))


def clang_ast(repo, header, filt, flags):
    with tempfile.TemporaryDirectory() as td:
        tu = os.path.join(td, 'tu.cpp')
        with open(tu, 'w') as f:
            f.write(f'#include <covfie/core/{header}>\n')
        cmd = [CLANG, '-std=c++20', '-I' + os.path.join(repo, 'lib/core'), '-fsyntax-only',
               '-Xclang', '-ast-dump=json', '-Xclang', '-ast-dump-filter=' + filt] + flags + [tu]
        p = subprocess.run(cmd, capture_output=True, text=True, timeout=120)
        return load_docs(p.stdout), p.stderr


def translate_kernel(repo, k):
    hdr_path = os.path.join(repo, CORE, k['header'])
    src = open(hdr_path).read()
    docs, err = clang_ast(repo, k['header'], k['filter'], k['flags'])
    # choose the document that lives in the right header: the qualified filter already
    # selects by enclosing record; keep only function-like docs with a body
    fns = [find_fn(d) for d in docs]
    fns = [f for f in fns if f]
    if not fns:
        raise Untranslatable(f"{k['header']}: no definition matches {k['filter']} ({err.strip()[:200]})")
    fn = fns[0]
    tr = Tr(fn, src, CORE + k['header'])
    tr.outcome = bool(k.get('outcome'))
    if k.get('lambda_body'):
        lam = find_kind(fn, 'LambdaExpr')
        if not lam:
            raise Untranslatable(f"{k['header']}: no lambda in {k['filter']}")
        meth = find_fn(lam)
        body = [c for c in meth['inner'] if c and c['kind'] == 'CompoundStmt'][0]
        # captured by reference: sizes (array)
        tr.arrays.add('sizes')
        d = tr.function(k['name'], body=body, params_from=meth, stop_at_loop=k.get('stop_at_loop'))
        # `sizes` is a captured local of the enclosing function: make it a parameter
        d['params'].append('(sizes : list tv)')
        return d
    return tr.function(k['name'])


def order_keys(free):
    return sorted(free.keys(), key=lambda k: (PARAM_ORDER.index(k) if k in PARAM_ORDER else 100, k))


def render(d):
    keys = order_keys(d['free'])
    fp = ' '.join(f'({k} : {d["free"][k]})' for k in keys)
    return f"Definition {d['name']} {fp} {' '.join(d['params'])} : {d['rty']} :=\n{d['code']}."


# which generated kernel a call inside a group refers to
CALLEES = {('Morton', 'calculate_index'): 'gen_morton_index',
           ('Hilbert', 'calculate_index'): 'gen_hilbert_index',
           ('HilbertAt', 'calculate_index'): 'gen_hilbert_index',
           ('Hilbert', 'rot'): 'gen_hilbert_rot'}
GROUP_IMPORTS = {'Morton': ' PdepModel', 'Hilbert': '.\nFrom Covfie.gen Require Import Gen_Numeric', 'HilbertAt': '.\nFrom Covfie.gen Require Import Gen_Hilbert'}


def resolve_calls(gname, defs, byname):
    """replace CALL_<f> by the generated kernel applied to its free parameters, which the caller
    then also takes as free parameters"""
    for d in defs:
        if not d:
            continue
        for c in sorted(d['calls']):
            target = CALLEES.get((gname, c))
            if target not in byname:
                d['code'] = d['code'].replace('CALL_' + c, f'UNRESOLVED_CALL_{c}')
                continue
            cal = byname[target]
            keys = order_keys(cal['free'])
            d['code'] = d['code'].replace('CALL_' + c, ' '.join([target] + keys))
            for k2 in keys:
                d['free'].setdefault(k2, cal['free'][k2])


HEADER = """(* GENERATED by tools/cxx2coq.py from {src} -- do not edit.
   Regenerated from /repo's working tree on every run of a check. *)
From Coq Require Import ZArith List.
From Covfie Require Import CKernel{extra}.
Import ListNotations.
Local Open Scope Z_scope.
Local Open Scope ck_scope.

"""


def main():
    ap = argparse.ArgumentParser()
    ap.add_argument('--repo', default='/repo')
    ap.add_argument('--out', default=os.path.join(os.path.dirname(os.path.abspath(__file__)), '..', 'coq', 'gen'))
    ap.add_argument('--jobs', type=int, default=8)
    ap.add_argument('--only', default=None)
    args = ap.parse_args()
    os.makedirs(args.out, exist_ok=True)
    kernels = [k for k in KERNELS if not args.only or k['group'] in args.only.split(',')]
    results = {}

    def work(k):
        try:
            return k, translate_kernel(args.repo, k), None
        except Untranslatable as e:
            return k, None, str(e)
        except Exception as e:  # malformed AST etc.: also a broken obligation, never a pass
            return k, None, f'{type(e).__name__}: {e}'

    with ThreadPoolExecutor(max_workers=args.jobs) as ex:
        out = list(ex.map(work, kernels))
    groups = {}
    report = {'kernels': [], 'untranslatable': []}
    gdefs = {}
    for k, d, err in out:
        gdefs.setdefault(k['group'], []).append((k, d, err))
    byname = {d['name']: d for _, d, _ in out if d}
    for gname in sorted(gdefs, key=lambda g: (g == 'HilbertAt', g)):
        items = gdefs[gname]
        resolve_calls(gname, [d for _, d, _ in items], byname)
        g = groups.setdefault(gname, [])
        for k, d, err in items:
            if err:
                g.append(f"(* UNTRANSLATABLE {k['name']}: {err} *)\n")
                report['untranslatable'].append({'name': k['name'], 'group': k['group'], 'why': err})
            else:
                text = render(d)
                g.append(text + '\n')
                report['kernels'].append({'name': k['name'], 'group': k['group'], 'header': k['header'],
                                          'flags': k['flags'], 'params': order_keys(d['free']),
                                          'sha256': hashlib.sha256(text.encode()).hexdigest()[:16]})
    for gname, defs in groups.items():
        srcs = sorted({k['header'] for k in kernels if k['group'] == gname})
        extra = GROUP_IMPORTS.get(gname, '')
        body = HEADER.format(src=', '.join(CORE + s for s in srcs), extra=extra) + '\n'.join(defs)
        path = os.path.join(args.out, f'Gen_{gname}.v')
        old = open(path).read() if os.path.exists(path) else None
        if old != body:
            with open(path, 'w') as f:
                f.write(body)
    with open(os.path.join(args.out, 'gen_report.json'), 'w') as f:
        json.dump(report, f, indent=1, sort_keys=True)
    for u in report['untranslatable']:
        print(f"UNTRANSLATABLE {u['name']}: {u['why']}")
    return 1 if report['untranslatable'] else 0


if __name__ == '__main__':
    sys.exit(main())
