#!/usr/bin/env python3
"""cxx_ndmap.py -- read utility/nd_map.hpp (tail_impl, tail, cat_impl, cat, nd_map) from clang's JSON AST and emit the
parameters of its recursion scheme as coq/gen/Gen_NdMap.v.

  cxx_ndmap.py <repo> <out.v>      prints a JSON report {..., problems: [...]}

What is read:
  tail_impl  returns array<T, N-1>{ t.at(Ns + OFFSET)... }                         -> ndm_tail_offset
  tail       calls tail_impl(std::make_index_sequence<N - DROP>(), t)              -> ndm_tail_drop
  cat_impl   returns { a1.at(Is1)..., a2.at(Is2)... }                              -> ndm_cat_order ([1; 2])
  cat        calls cat_impl(a1, a2, make_index_sequence<N1>(), make_index_sequence<N2>())
  nd_map     if constexpr (dimensions == 0) f({});
             else if constexpr (dimensions == 1) for (i = 0; i < s.at(B1); ++i) f(array<.,1>{i});
             else for (i = 0; i < s.at(B2); ++i) nd_map<tail_t>([f, i](tail_t r) { f(cat(array<.,1>{i}, r)); }, tail(s));
                                                                                    -> ndm_rank1_bound, ndm_rec_bound, ndm_prefix_front
Anything that does not have exactly this shape is a problem (the refinement theorem then cannot be discharged)."""
import json, os, re, subprocess, sys, tempfile


def strip(d):
    while isinstance(d, dict) and d.get('kind') in ('ImplicitCastExpr', 'ParenExpr', 'ExprWithCleanups', 'MaterializeTemporaryExpr', 'CXXBindTemporaryExpr', 'CXXStaticCastExpr', 'CXXFunctionalCastExpr') and d.get('inner'):
        d = d['inner'][0]
    return d


def ref(d):
    d = strip(d)
    return d.get('referencedDecl', {}).get('name') if d.get('kind') == 'DeclRefExpr' else None


def at_call(d):
    """X.at(E) -> (X, E)"""
    d = strip(d)
    if d.get('kind') == 'CallExpr' and len(d['inner']) == 2:
        c = strip(d['inner'][0])
        if c.get('member') == 'at':
            return ref(c['inner'][0]), strip(d['inner'][1])
    return None, None


def loop(st, problems, what):
    """for (T i = 0; i < s.at(K); ++i) body -> (K, body) """
    if st.get('kind') != 'ForStmt':
        problems.append(f'{what}: not a for loop')
        return None, None
    init, _, cond, inc, body = st['inner']
    vd = init['inner'][0] if init.get('kind') == 'DeclStmt' else {}
    start = strip(vd['inner'][0]) if vd.get('inner') else {}
    c = strip(cond)
    i = strip(inc)
    who, idx = at_call(c['inner'][1]) if c.get('kind') == 'BinaryOperator' and c.get('opcode') == '<' else (None, None)
    if not (vd.get('name') == 'i' and start.get('value') == '0' and ref(c['inner'][0]) == 'i' and who == 's' and idx.get('kind') == 'IntegerLiteral'
            and i.get('kind') == 'UnaryOperator' and i.get('opcode') == '++' and ref(i['inner'][0]) == 'i'):
        problems.append(f'{what}: loop is not for (i = 0; i < s.at(K); ++i)')
        return None, None
    return int(idx['value']), body


def one_elem_array_of_i(d):
    d = strip(d)
    if d.get('kind') == 'CXXUnresolvedConstructExpr' and re.search(r'array<.*, 1>$', d.get('type', {}).get('qualType', '')):
        il = strip(d['inner'][0]) if d.get('inner') else {}
        return il.get('kind') == 'InitListExpr' and len(il.get('inner', [])) == 1 and ref(il['inner'][0]) == 'i'
    return False


def main(repo, out):
    with tempfile.TemporaryDirectory() as td:
        tu = os.path.join(td, 'tu.cpp')
        open(tu, 'w').write('#include <covfie/core/utility/nd_map.hpp>\n')
        p = subprocess.run(['clang++', '-std=c++20', '-DNDEBUG', '-I' + os.path.join(repo, 'lib', 'core'), '-fsyntax-only', '-Xclang', '-ast-dump=json',
                            '-Xclang', '-ast-dump-filter=covfie::utility', tu], stdout=subprocess.PIPE, stderr=subprocess.PIPE, text=True, timeout=120)
    txt, dec, i, objs = p.stdout, json.JSONDecoder(), 0, []
    while i < len(txt):
        while i < len(txt) and txt[i].isspace():
            i += 1
        if i >= len(txt):
            break
        o, j = dec.raw_decode(txt, i)
        objs.append(o)
        i = j
    fns = {}
    for o in objs:
        for x in o.get('inner', []) if o.get('kind') == 'NamespaceDecl' else [o]:
            if x.get('kind') == 'FunctionTemplateDecl' and x.get('name') in ('tail_impl', 'tail', 'cat_impl', 'cat', 'nd_map'):
                fd = [y for y in x['inner'] if y.get('kind') == 'FunctionDecl']
                if fd:
                    fns.setdefault(x['name'], []).append(fd[0])
    problems = []
    vals = {'tail_offset': 99, 'tail_drop': 99, 'cat_order': [], 'rank0': False, 'rank1_bound': 99, 'rank1_arg': False, 'rec_bound': 99, 'rec_tail': False, 'prefix_front': False}

    def body_of(name):
        if len(fns.get(name, [])) != 1:
            problems.append(f'{len(fns.get(name, []))} definitions of {name}')
            return None
        b = [c for c in fns[name][0]['inner'] if c.get('kind') == 'CompoundStmt']
        return b[0].get('inner', []) if b else None
    try:
        b = body_of('tail_impl')
        if b is not None:
            r = strip(b[0]['inner'][0]) if len(b) == 1 and b[0].get('kind') == 'ReturnStmt' else {}
            m = re.search(r'array<T, N - (\d+)>', r.get('type', {}).get('qualType', ''))
            il = strip(r['inner'][0]) if r.get('inner') else {}
            pk = strip(il['inner'][0]) if il.get('kind') == 'InitListExpr' and len(il.get('inner', [])) == 1 else {}
            who, idx = at_call(pk['inner'][0]) if pk.get('kind') == 'PackExpansionExpr' else (None, None)
            if who == 't' and idx and idx.get('kind') == 'BinaryOperator' and idx.get('opcode') == '+' and ref(idx['inner'][0]) == 'Ns' and strip(idx['inner'][1]).get('kind') == 'IntegerLiteral' and m and m.group(1) == '1':
                vals['tail_offset'] = int(strip(idx['inner'][1])['value'])
            else:
                problems.append('tail_impl is not array<T, N-1>{t.at(Ns + K)...}')
        b = body_of('tail')
        if b is not None:
            r = strip(b[0]['inner'][0]) if len(b) == 1 and b[0].get('kind') == 'ReturnStmt' else {}
            ok = r.get('kind') == 'CallExpr' and strip(r['inner'][0]).get('name') == 'tail_impl' and len(r['inner']) == 3 and ref(r['inner'][2]) == 't'
            m = re.search(r'make_index_sequence<N - (\d+)U?>', strip(r['inner'][1]).get('type', {}).get('qualType', '')) if ok else None
            if m:
                vals['tail_drop'] = int(m.group(1))
            else:
                problems.append('tail is not tail_impl(make_index_sequence<N - K>(), t)')
        b = body_of('cat_impl')
        if b is not None:
            r = strip(b[0]['inner'][0]) if len(b) == 1 and b[0].get('kind') == 'ReturnStmt' else {}
            order = []
            for pk in r.get('inner', []) if r.get('kind') == 'InitListExpr' else []:
                pk = strip(pk)
                who, idx = at_call(pk['inner'][0]) if pk.get('kind') == 'PackExpansionExpr' else (None, None)
                if who in ('a1', 'a2') and ref(idx) == 'Is' + who[1]:
                    order.append(int(who[1]))
                else:
                    order.append(0)
            vals['cat_order'] = order
        b = body_of('cat')
        if b is not None:
            r = strip(b[0]['inner'][0]) if len(b) == 1 and b[0].get('kind') == 'ReturnStmt' else {}
            args = r.get('inner', [])[1:] if r.get('kind') == 'CallExpr' and strip(r['inner'][0]).get('name') == 'cat_impl' else []
            tys = [strip(a).get('type', {}).get('qualType', '') for a in args[2:]]
            if not (len(args) == 4 and ref(args[0]) == 'a1' and ref(args[1]) == 'a2' and 'make_index_sequence<N1>' in tys[0] and 'make_index_sequence<N2>' in tys[1]):
                problems.append('cat is not cat_impl(a1, a2, make_index_sequence<N1>(), make_index_sequence<N2>())')
        b = body_of('nd_map')
        if b is not None:
            top = b[0] if len(b) == 1 else {}

            def dims_eq(c, k):
                c = strip(c)
                return c.get('kind') == 'BinaryOperator' and c.get('opcode') == '==' and strip(c['inner'][1]).get('value') == str(k)
            if not (top.get('kind') == 'IfStmt' and top.get('isConstexpr') and dims_eq(top['inner'][0], 0) and len(top['inner']) == 3):
                problems.append('nd_map: first branch is not if constexpr (dimensions == 0) ... else')
            else:
                b0 = top['inner'][1].get('inner', [])
                c0 = strip(b0[0]) if len(b0) == 1 else {}
                il = strip(c0['inner'][1]) if c0.get('kind') == 'CallExpr' and ref(c0['inner'][0]) == 'f' and len(c0['inner']) == 2 else {}
                vals['rank0'] = il.get('kind') == 'InitListExpr' and not il.get('inner')
                nxt = top['inner'][2]
                if not (nxt.get('kind') == 'IfStmt' and nxt.get('isConstexpr') and dims_eq(nxt['inner'][0], 1) and len(nxt['inner']) == 3):
                    problems.append('nd_map: second branch is not else if constexpr (dimensions == 1) ... else')
                else:
                    b1 = nxt['inner'][1].get('inner', [])
                    k1, body1 = loop(b1[0], problems, 'nd_map rank 1') if len(b1) == 1 else (None, None)
                    if k1 is not None:
                        vals['rank1_bound'] = k1
                        st = body1.get('inner', []) if body1.get('kind') == 'CompoundStmt' else []
                        c1 = strip(st[0]) if len(st) == 1 else {}
                        vals['rank1_arg'] = c1.get('kind') == 'CallExpr' and ref(c1['inner'][0]) == 'f' and len(c1['inner']) == 2 and one_elem_array_of_i(c1['inner'][1])
                    b2 = [x for x in nxt['inner'][2].get('inner', []) if not (x.get('kind') == 'DeclStmt' and all(y.get('kind') == 'TypeAliasDecl' for y in x.get('inner', [])))]
                    k2, body2 = loop(b2[0], problems, 'nd_map recursion') if len(b2) == 1 else (None, None)
                    if len(b2) != 1:
                        problems.append(f'nd_map: the recursive branch has {len(b2)} statements besides the type alias')
                    if k2 is not None:
                        vals['rec_bound'] = k2
                        st = body2.get('inner', []) if body2.get('kind') == 'CompoundStmt' else []
                        c2 = strip(st[0]) if len(st) == 1 else {}
                        if c2.get('kind') == 'CallExpr' and strip(c2['inner'][0]).get('name') == 'nd_map' and len(c2['inner']) == 3:
                            lam, arg = strip(c2['inner'][1]), strip(c2['inner'][2])
                            vals['rec_tail'] = arg.get('kind') == 'CallExpr' and strip(arg['inner'][0]).get('name') == 'tail' and len(arg['inner']) == 2 and ref(arg['inner'][1]) == 's'
                            lb = [x for x in lam.get('inner', []) if x.get('kind') == 'CompoundStmt']
                            ls = lb[-1].get('inner', []) if lb else []
                            lc = strip(ls[0]) if len(ls) == 1 else {}
                            cc = strip(lc['inner'][1]) if lc.get('kind') == 'CallExpr' and ref(lc['inner'][0]) == 'f' and len(lc['inner']) == 2 else {}
                            if cc.get('kind') == 'CallExpr' and strip(cc['inner'][0]).get('name') == 'cat' and len(cc['inner']) == 3:
                                if one_elem_array_of_i(cc['inner'][1]) and ref(cc['inner'][2]) == 'r':
                                    vals['prefix_front'] = True
                                elif one_elem_array_of_i(cc['inner'][2]) and ref(cc['inner'][1]) == 'r':
                                    vals['prefix_front'] = False
                                    vals['prefix_back'] = True
                                else:
                                    problems.append('nd_map: the callback is not f(cat({i}, r))')
                            else:
                                problems.append('nd_map: the lambda does not call f(cat(..))')
                        else:
                            problems.append('nd_map: the loop body is not one recursive call')
    except Exception as ex:
        problems.append(f'{type(ex).__name__}: {ex}')
    rep = dict(vals)
    rep['problems'] = problems

    def b_(x):
        return 'true' if x else 'false'
    txt = ('(* GENERATED by tools/cxx_ndmap.py from utility/nd_map.hpp -- do not edit. *)\nFrom Coq Require Import List.\nImport ListNotations.\n\n'
           f'Definition ndm_tail_offset : nat := {vals["tail_offset"]}.      (* tail_impl: t.at(Ns + OFFSET)... *)\n'
           f'Definition ndm_tail_drop : nat := {vals["tail_drop"]}.        (* tail: make_index_sequence<N - DROP> *)\n'
           f'Definition ndm_cat_order : list nat := [{"; ".join(map(str, vals["cat_order"]))}].   (* cat_impl: which argument each pack expansion reads *)\n'
           f'Definition ndm_rank0_calls_f_once : bool := {b_(vals["rank0"])}.\n'
           f'Definition ndm_rank1_bound : nat := {vals["rank1_bound"]}.      (* i < s.at(BOUND) *)\n'
           f'Definition ndm_rank1_calls_f_i : bool := {b_(vals["rank1_arg"])}.\n'
           f'Definition ndm_rec_bound : nat := {vals["rec_bound"]}.\n'
           f'Definition ndm_rec_on_tail : bool := {b_(vals["rec_tail"])}.     (* nd_map<tail_t>(.., tail(s)) *)\n'
           f'Definition ndm_prefix_front : bool := {b_(vals["prefix_front"])}.    (* f(cat({{i}}, r)) *)\n'
           f'Definition ndm_problems : nat := {len(problems)}.\n')
    os.makedirs(os.path.dirname(out), exist_ok=True)
    open(out, 'w').write(txt)
    return rep


if __name__ == '__main__':
    print(json.dumps(main(sys.argv[1], sys.argv[2])))
