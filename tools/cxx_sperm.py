#!/usr/bin/env python3
"""cxx_sperm.py -- the equations of the metaprogram in utility/static_permutation.hpp, read from clang's JSON AST: for every
(partial) specialisation of concat_index_sequence, filter_index_sequence_lt / _geq, sort_index_sequence the SHAPE of its argument
patterns and the type expression its member `type` is defined as; for is_permutation its base classes.

  cxx_sperm.py <repo> <out.v>      prints a JSON report

Type expressions (parsed from the printed type):
  std::index_sequence<A, B, Ps...>         TSeq ["A"; "B"; "Ps..."]
  typename concat_index_sequence<X, Y>::type        TConcat X Y
  std::conditional_t<A < B, X, Y>          TCond "<" "A" "B" X Y          (also >=, <=, >)
  typename F<args>::type                   TCall "F" [args]       (F one of the metaprogram's templates)
  std::integral_constant<std::size_t, N>   TConst "N"
  std::is_same<X, Y>                       TCall "is_same" [X; Y]
Pattern shapes: PConst (integral_constant<size_t, N>), PNil (index_sequence<>), PCons k (k leading elements then a pack), PAny (a pack only)."""
import json, os, re, subprocess, sys, tempfile

OURS = ('concat_index_sequence', 'filter_index_sequence_lt', 'filter_index_sequence_geq', 'sort_index_sequence', 'is_permutation')


def split_args(s):
    out, depth, cur = [], 0, ''
    for ch in s:
        if ch == '<':
            depth += 1
        elif ch == '>':
            depth -= 1
        if ch == ',' and depth == 0:
            out.append(cur.strip())
            cur = ''
        else:
            cur += ch
    if cur.strip():
        out.append(cur.strip())
    return out


def parse(t):
    t = t.strip()
    t = re.sub(r'^typename\s+', '', t)
    m = re.match(r'^([A-Za-z_:0-9]+)<(.*)>(::type)?$', t, re.S)
    if not m:
        raise ValueError(f'type expression {t!r}')
    name, inner = m.group(1).replace('std::', ''), m.group(2)
    args = split_args(inner)
    if name == 'index_sequence':
        return 'TSeq [' + '; '.join('"' + a.replace('CMPLT', '<') + '"' for a in args) + ']'
    if name == 'integral_constant':
        return f'TConst "{args[1]}"'
    if name == 'conditional_t':
        c = args[0]
        mm = re.match(r'^(\w+) (CMPLT|CMPGE|CMPLE|CMPGT) (\w+)$', c)
        if not mm:
            raise ValueError(f'condition {c!r}')
        op = {'CMPLT': '<', 'CMPGE': '>=', 'CMPLE': '<=', 'CMPGT': '>'}[mm.group(2)]
        return f'TCond "{op}" "{mm.group(1)}" "{mm.group(3)}" ({parse(args[1])}) ({parse(args[2])})'
    if name == 'concat_index_sequence' and m.group(3):
        return f'TConcat ({parse(args[0])}) ({parse(args[1])})'
    if name in OURS or name == 'is_same':
        return f'TCall "{name}" [' + '; '.join(parse(a) for a in args) + ']'
    raise ValueError(f'template {name}')


def protect(s):
    return s.replace(' < ', ' CMPLT ').replace(' >= ', ' CMPGE ').replace(' <= ', ' CMPLE ').replace(' > ', ' CMPGT ')


def shape(a):
    a = a.replace('std::', '')
    if re.match(r'^integral_constant<unsigned long, \w+>$', a):
        return 'PConst'
    m = re.match(r'^integer_sequence<unsigned long(.*)>$', a)
    if m:
        el = [x.strip() for x in m.group(1).split(',') if x.strip()]
        if not el:
            return 'PNil'
        if el[-1].endswith('...'):
            return 'PAny' if len(el) == 1 else f'(PCons {len(el) - 1})'
        return f'(PFixed {len(el)})'
    return f'(POther "{a}")'


def main(repo, out):
    with tempfile.TemporaryDirectory() as td:
        tu = os.path.join(td, 'tu.cpp')
        open(tu, 'w').write('#include <covfie/core/utility/static_permutation.hpp>\n')
        p = subprocess.run(['clang++', '-std=c++20', '-DNDEBUG', '-I' + os.path.join(repo, 'lib', 'core'), '-fsyntax-only', '-Xclang', '-ast-dump=json',
                            '-Xclang', '-ast-dump-filter=covfie::utility', tu], stdout=subprocess.PIPE, stderr=subprocess.PIPE, text=True, timeout=120)
    txt, dec, i, objs = p.stdout, json.JSONDecoder(), 0, []
    while i < len(txt):
        while i < len(txt) and txt[i].isspace():
            i += 1
        if i >= len(txt):
            break
        o, j = dec.raw_decode(txt, i)
        objs.append(o)
        i = j
    eqs, bases, problems, others = [], [], [], []
    eq_params = []
    for o in objs:
        for x in o.get('inner', []) if o.get('kind') == 'NamespaceDecl' else [o]:
            k, name = x.get('kind'), x.get('name')
            if k in ('ClassTemplateDecl', 'ClassTemplatePartialSpecializationDecl', 'ClassTemplateSpecializationDecl') and name not in OURS:
                if name and k == 'ClassTemplateDecl':
                    others.append(name)
                continue
            try:
                if k in ('ClassTemplatePartialSpecializationDecl', 'ClassTemplateSpecializationDecl'):
                    pats = [shape(c.get('type', {}).get('qualType', '')) for c in x.get('inner', []) if c.get('kind') == 'TemplateArgument']
                    tys = [c['type']['qualType'] for c in x.get('inner', []) if c.get('kind') == 'TypeAliasDecl' and c.get('name') == 'type']
                    params = []
                    for c in x.get('inner', []):
                        if c.get('kind') in ('NonTypeTemplateParmDecl', 'TemplateTypeParmDecl') and c.get('name'):
                            params.append(c['name'] + ('...' if c.get('isParameterPack') else ''))
                    for t in tys:
                        eqs.append((name, pats, parse(protect(t))))
                        eq_params.append(params)
                    for b in x.get('bases', []):
                        bases.append((name, pats, parse(protect(b['type']['qualType']))))
                    extra = [c.get('name') for c in x.get('inner', []) if c.get('kind') in ('TypeAliasDecl', 'VarDecl', 'FieldDecl', 'CXXMethodDecl') and not (c.get('kind') == 'TypeAliasDecl' and c.get('name') == 'type') and not c.get('isImplicit')]
                    if extra:
                        problems.append(f'{name}: further members {extra}')
                elif k == 'ClassTemplateDecl':
                    rec = [c for c in x['inner'] if c.get('kind') == 'CXXRecordDecl']
                    for b in (rec[0].get('bases', []) if rec else []):
                        bases.append((name, ['PPrimary'], 'TCall "' + b['type']['qualType'].replace('std::', '') + '" []'))
                    mem = [c.get('name') for c in (rec[0].get('inner', []) if rec else []) if c.get('kind') in ('TypeAliasDecl', 'VarDecl', 'FieldDecl', 'CXXMethodDecl') and not c.get('isImplicit')]
                    if mem:
                        problems.append(f'primary template {name} has members {mem}')
            except Exception as ex:
                problems.append(f'{name}: {ex}')
    if others:
        problems.append(f'further templates in static_permutation.hpp: {sorted(set(others))}')
    rep = {'equations': [[n, ps, t] for n, ps, t in eqs], 'bases': [[n, ps, t] for n, ps, t in bases], 'problems': problems}

    def row(n, ps, t):
        return f'("{n}", [{"; ".join(ps)}], {t})'
    txt = ('(* GENERATED by tools/cxx_sperm.py from utility/static_permutation.hpp -- do not edit. *)\nFrom Coq Require Import String List.\nImport ListNotations.\nLocal Open Scope string_scope.\n\n'
           'Inductive pat := PConst | PNil | PCons (k : nat) | PAny | PFixed (k : nat) | PPrimary | POther (s : string).\n'
           'Inductive ty := TSeq (els : list string) | TConst (n : string) | TConcat (a b : ty) | TCond (op a b : string) (t e : ty) | TCall (f : string) (args : list ty).\n'
           'Definition sp_equations : list (string * list pat * ty) := [\n  ' + ';\n  '.join(row(*e) for e in eqs) + '].\n'
           'Definition sp_bases : list (string * list pat * ty) := [\n  ' + ';\n  '.join(row(*e) for e in bases) + '].\n'
           '(* the template parameters of each specialisation above, in declaration order (pattern variables are bound in this order) *)\n'
           'Definition sp_params : list (list string) := [' + '; '.join('[' + '; '.join(f'"{q_}"' for q_ in ps) + ']' for ps in eq_params) + '].\n'
           f'Definition sp_problems : nat := {len(problems)}.\n')
    os.makedirs(os.path.dirname(out), exist_ok=True)
    open(out, 'w').write(txt)
    return rep


if __name__ == '__main__':
    print(json.dumps(main(sys.argv[1], sys.argv[2])))
