#!/usr/bin/env python3
"""cxx_algebra.py -- translate the loop programs of covfie::algebra (matrix.hpp, affine.hpp) from clang's JSON AST of the
UNINSTANTIATED templates into terms of coq/MatLang.v.

  cxx_algebra.py <repo> <out.v>      prints a JSON report {translated: [...], untranslatable: [{name, why}]}

Translated: matrix::operator*(matrix) , matrix::identity , affine::operator*(vector) , affine::operator*(affine) ,
affine::translation , affine::scaling.  Anything outside the grammar below is reported as untranslatable (the proof
obligations about that function then cannot be discharged).

  stmt ::= for (I v = 0; v < DIM; ++v) { stmt* } | X(i[, j]) = e ; | T x = e ; | x += e ; | if (i == j) { stmt* } else { stmt* }
         | matrix<..> X ; | matrix<..> X = A * B ; | matrix<..> X = matrix<..>::identity() ; | array<T,N> a{args...} ;
         | return X ; | return Base::operator*(X) ; | static_assert
  e    ::= literal 0 / 1 (possibly under static_cast<T>) | x | X(i[, j]) | a[i] | e * e | e + e | (i == j) ? e : e
  DIM  ::= template parameter | integer literal | DIM + DIM
"""
import json, os, re, subprocess, sys, tempfile


class Untranslatable(Exception):
    pass


SKIP = ('ImplicitCastExpr', 'ParenExpr', 'ExprWithCleanups', 'MaterializeTemporaryExpr', 'CXXBindTemporaryExpr', 'CXXFunctionalCastExpr')


def strip(d):
    while isinstance(d, dict) and d.get('kind') in SKIP and d.get('inner'):
        d = d['inner'][0]
    return d


def q(s):
    return '"' + s + '"'


SRC = {'text': None}
TRAIT_DIM = {'contravariant_input_t': 'N', 'contravariant_output_t': 'N', 'covariant_input_t': 'M', 'covariant_output_t': 'M'}


def dexp(d):
    d = strip(d)
    k = d.get('kind')
    if k in ('CXXDependentScopeMemberExpr', 'DependentScopeDeclRefExpr') and (d.get('member') == 'dimensions' or k == 'DependentScopeDeclRefExpr'):
        # X::dimensions -- the JSON drops the qualifier; it is read from the source text at the node's offset
        b = d.get('range', {}).get('begin', {})
        b = b.get('expansionLoc', b)
        if SRC['text'] is None or 'offset' not in b:
            raise Untranslatable('trait dimension without source position')
        tok = SRC['text'][b['offset']:b['offset'] + b.get('tokLen', 0)]
        if tok not in TRAIT_DIM:
            raise Untranslatable(f'dimension of unknown trait {tok}')
        return f'(DV {q(TRAIT_DIM[tok])})'
    if k == 'DeclRefExpr':
        return f'(DV {q(d["referencedDecl"]["name"])})'
    if k == 'IntegerLiteral':
        return f'(DL {int(d["value"])})'
    if k == 'BinaryOperator' and d.get('opcode') == '+':
        return f'(DPlus {dexp(d["inner"][0])} {dexp(d["inner"][1])})'
    raise Untranslatable(f'dimension expression {k}')


def parse_dims(ty):
    """'matrix<N + 1, N + 1, T, I>' -> (dexp, dexp) ; 'vector<N + 1, T, I>' -> (dexp, DL 1) ; 'affine<N, T, I>' -> (N, N+1)"""
    ty = ty.replace('const ', '').replace('&', '').strip()
    m = re.match(r'(?:covfie::algebra::)?(matrix|vector|affine)<(.*)>$', ty)
    if not m:
        raise Untranslatable(f'type {ty}')
    args = [a.strip() for a in m.group(2).split(',')]

    def de(s):
        s = s.strip()
        if '+' in s:
            a, b = s.split('+', 1)
            return f'(DPlus {de(a)} {de(b)})'
        if s.isdigit():
            return f'(DL {int(s)})'
        if re.match(r'^[A-Za-z_]\w*$', s):
            return f'(DV {q(s)})'
        mt = re.match(r'^(\w+)::dimensions$', s)
        if mt and mt.group(1) in TRAIT_DIM:
            return f'(DV {q(TRAIT_DIM[mt.group(1)])})'
        raise Untranslatable(f'dimension {s}')
    if m.group(1) == 'matrix':
        return de(args[0]), de(args[1])
    if m.group(1) == 'vector':
        return de(args[0]), '(DL 1)'
    return de(args[0]), f'(DPlus {de(args[0])} (DL 1))'


class Fn:
    def __init__(self, cls, this_dims):
        self.cls = cls
        self.loopvars = set()
        self.shapes = {'this': this_dims}
        self.arrays = set()
        self.locals = set()
        self.ret = None
        self.extra = []
        self.coords = set()        # coordinate arrays (vector_t), treated as one-column matrices

    def iexp(self, d):
        d = strip(d)
        if d.get('kind') == 'DeclRefExpr' and d['referencedDecl']['name'] in self.loopvars:
            return f'(IV {q(d["referencedDecl"]["name"])})'
        return f'(ID {dexp(d)})'

    def elem(self, d):
        """CallExpr X(i[, j]) / this->operator()(i, j) -> (name, i, j)"""
        inner = d['inner']
        callee = strip(inner[0])
        args = inner[1:]
        if callee.get('kind') == 'DeclRefExpr':
            name = callee['referencedDecl']['name']
        elif callee.get('kind') in ('CXXDependentScopeMemberExpr', 'MemberExpr') and callee.get('member', callee.get('name', '')).endswith('operator()'):
            base = strip(callee['inner'][0])
            if base.get('kind') == 'CXXThisExpr':
                name = 'this'
            elif base.get('kind') == 'DeclRefExpr':
                name = base['referencedDecl']['name']
            else:
                raise Untranslatable(f'element access on {base.get("kind")}')
        else:
            raise Untranslatable(f'call of {callee.get("kind")} {callee.get("member")}')
        if name not in self.shapes:
            raise Untranslatable(f'element access on unknown object {name}')
        if len(args) == 2:
            return name, self.iexp(args[0]), self.iexp(args[1])
        if len(args) == 1:
            return name, self.iexp(args[0]), '(ID (DL 0))'
        raise Untranslatable('element access with %d arguments' % len(args))

    def sexp(self, d):
        d = strip(d)
        k = d.get('kind')
        if k == 'CXXStaticCastExpr':
            return self.sexp(d['inner'][0])
        if k in ('IntegerLiteral', 'FloatingLiteral'):
            v = float(d['value'])
            if v == 0.0:
                return '(SLit false)'
            if v == 1.0:
                return '(SLit true)'
            raise Untranslatable(f'literal {d["value"]}')
        if k == 'DeclRefExpr':
            n = d['referencedDecl']['name']
            if n in self.locals:
                return f'(SLoc {q(n)})'
            raise Untranslatable(f'scalar reference to {n}')
        if k == 'CallExpr':
            n, i, j = self.elem(d)
            return f'(SEl {q(n)} {i} {j})'
        if k == 'ArraySubscriptExpr':
            a = strip(d['inner'][0])
            if a.get('kind') == 'DeclRefExpr' and a['referencedDecl']['name'] in self.arrays:
                return f'(SArr {q(a["referencedDecl"]["name"])} {self.iexp(d["inner"][1])})'
            if a.get('kind') == 'DeclRefExpr' and a['referencedDecl']['name'] in self.coords:
                return f'(SEl {q(a["referencedDecl"]["name"])} {self.iexp(d["inner"][1])} (ID (DL 0)))'
            raise Untranslatable('subscript of a non-array')
        if k == 'BinaryOperator' and d.get('opcode') in ('*', '+'):
            c = 'SMul' if d['opcode'] == '*' else 'SAdd'
            return f'({c} {self.sexp(d["inner"][0])} {self.sexp(d["inner"][1])})'
        if k == 'ConditionalOperator':
            c = strip(d['inner'][0])
            if c.get('kind') == 'BinaryOperator' and c.get('opcode') == '==':
                return f'(SCond {self.iexp(c["inner"][0])} {self.iexp(c["inner"][1])} {self.sexp(d["inner"][1])} {self.sexp(d["inner"][2])})'
        raise Untranslatable(f'scalar expression {k} {d.get("opcode", "")}')

    def block(self, d):
        d = strip(d)
        items = d.get('inner', []) if d.get('kind') == 'CompoundStmt' else [d]
        out = []
        for s in items:
            out += self.stmt(s)
        return out

    def stmt(self, s):
        k = s.get('kind')
        if k == 'NullStmt':
            return []
        if k == 'ForStmt':
            init, _, cond, inc, body = s['inner']
            vd = init['inner'][0] if init.get('kind') == 'DeclStmt' else None
            if not vd or vd.get('kind') != 'VarDecl' or strip(vd['inner'][0]).get('value') != '0':
                raise Untranslatable('loop does not start at 0')
            v = vd['name']
            c = strip(cond)
            if not (c.get('kind') == 'BinaryOperator' and c.get('opcode') == '<' and strip(c['inner'][0]).get('referencedDecl', {}).get('name') == v):
                raise Untranslatable('loop condition is not v < bound')
            i = strip(inc)
            if not (i.get('kind') == 'UnaryOperator' and i.get('opcode') == '++' and strip(i['inner'][0]).get('referencedDecl', {}).get('name') == v):
                raise Untranslatable('loop increment is not ++v')
            bound = dexp(c['inner'][1])
            self.loopvars.add(v)
            body_t = self.block(body)
            return [f'For {q(v)} {bound} [{"; ".join(body_t)}]']
        if k == 'IfStmt':
            c = strip(s['inner'][0])
            if not (c.get('kind') == 'BinaryOperator' and c.get('opcode') == '=='):
                raise Untranslatable('if condition is not an equality of indices')
            a = self.block(s['inner'][1])
            b = self.block(s['inner'][2]) if len(s['inner']) > 2 else []
            return [f'IfEq {self.iexp(c["inner"][0])} {self.iexp(c["inner"][1])} [{"; ".join(a)}] [{"; ".join(b)}]']
        if k == 'DeclStmt':
            out = []
            for vd in s['inner']:
                if vd.get('kind') == 'StaticAssertDecl':
                    continue
                if vd.get('kind') != 'VarDecl':
                    raise Untranslatable(f'declaration {vd.get("kind")}')
                ty = vd['type']['qualType']
                name = vd['name']
                init = strip(vd['inner'][0]) if vd.get('inner') else None
                if re.match(r'^(covfie::algebra::)?(matrix|vector|affine)<', ty):
                    self.shapes[name] = parse_dims(ty)
                    if init is None or init.get('kind') in ('CXXConstructExpr', 'CXXUnresolvedConstructExpr', 'ParenListExpr') and not init.get('inner'):
                        out.append(f'DeclMat {q(name)}')
                    elif init.get('kind') == 'BinaryOperator' and init.get('opcode') == '*' and strip(init['inner'][0]).get('kind') == 'MemberExpr':
                        # m_transform * v : affine<N>::operator*(vector<N>)
                        a, b = strip(init['inner'][0]), strip(init['inner'][1])
                        if a.get('name') != 'm_transform' or 'matrix_t' not in a['type']['qualType'] or b.get('kind') != 'DeclRefExpr':
                            raise Untranslatable('product of something other than m_transform and a vector')
                        bn = b['referencedDecl']['name']
                        if self.shapes.get(bn) != (self.shapes[name][0], '(DL 1)'):
                            raise Untranslatable(f'shape of {bn}')
                        out.append(f'CallApply {q(name)} {q("m_transform")} {q(bn)} {self.shapes[name][0]}')
                    elif init.get('kind') == 'BinaryOperator' and init.get('opcode') == '*':
                        a, b = strip(init['inner'][0]), strip(init['inner'][1])
                        an, bn = a['referencedDecl']['name'], b['referencedDecl']['name']
                        (n1, m1), (m2, p2) = self.shapes[an], self.shapes[bn]
                        if m1 != m2:
                            raise Untranslatable(f'product of {an} and {bn}: inner shapes {m1} / {m2} differ')
                        out.append(f'CallMul {q(name)} {q(an)} {q(bn)} {n1} {m1} {p2}')
                    elif init.get('kind') == 'CallExpr' and strip(init['inner'][0]).get('kind') == 'DependentScopeDeclRefExpr' and len(init['inner']) == 1:
                        # matrix<N, N + 1, T, I>::identity() : the only static nullary member the classes have is identity
                        n1, m1 = self.shapes[name]
                        self.extra.append('identity-call')
                        out.append(f'CallIdentity {q(name)} {n1} {m1}')
                    else:
                        raise Untranslatable(f'initialiser of {name}: {init.get("kind")}')
                elif ty.endswith('::vector_t') and init is None:
                    self.coords.add(name)
                    out.append(f'DeclMat {q(name)}')
                elif 'array' in ty and init is not None and init.get('kind') == 'InitListExpr':
                    pk = strip(init['inner'][0]) if init.get('inner') else {}
                    if pk.get('kind') == 'PackExpansionExpr':
                        # array<T, N> arr{args...}: arr[i] is the i-th argument
                        self.arrays.add(name)
                        self.extra.append(f'array {name} = args')
                    else:
                        raise Untranslatable(f'array initialiser of {name}')
                else:
                    if init is None:
                        raise Untranslatable(f'uninitialised scalar {name}')
                    e = self.sexp(init)
                    self.locals.add(name)
                    out.append(f'Decl {q(name)} {e}')
            return out
        if k == 'CompoundAssignOperator' and s.get('opcode') == '+=':
            l = strip(s['inner'][0])
            n = l.get('referencedDecl', {}).get('name')
            if n not in self.locals:
                raise Untranslatable('+= on something that is not a scalar local')
            return [f'Accum {q(n)} {self.sexp(s["inner"][1])}']
        if k == 'BinaryOperator' and s.get('opcode') == '=':
            l = strip(s['inner'][0])
            if l.get('kind') == 'ArraySubscriptExpr':
                a = strip(l['inner'][0])
                if a.get('kind') == 'DeclRefExpr' and a['referencedDecl']['name'] in self.coords:
                    return [f'SetEl {q(a["referencedDecl"]["name"])} {self.iexp(l["inner"][1])} (ID (DL 0)) {self.sexp(s["inner"][1])}']
            if l.get('kind') != 'CallExpr':
                raise Untranslatable(f'assignment to {l.get("kind")}')
            n, i, j = self.elem(l)
            if n == 'this':
                raise Untranslatable('assignment to the object itself')
            return [f'SetEl {q(n)} {i} {j} {self.sexp(s["inner"][1])}']
        if k == 'ReturnStmt':
            r = strip(s['inner'][0])
            if r.get('kind') == 'DeclRefExpr':
                self.ret = r['referencedDecl']['name']
                return []
            if r.get('kind') == 'CallExpr':
                callee = strip(r['inner'][0])
                if callee.get('kind') == 'CXXDependentScopeMemberExpr' and callee.get('member') == 'at' and len(r['inner']) == 2:
                    base = strip(callee['inner'][0])
                    a = strip(r['inner'][1])
                    if base.get('kind') == 'MemberExpr' and base.get('name') == 'm_backend' and a.get('kind') == 'DeclRefExpr' and a['referencedDecl']['name'] in self.coords:
                        # return m_backend.at(nc): the function's result, for the model, is the coordinate handed to the backend
                        self.ret = a['referencedDecl']['name']
                        self.extra.append('returns m_backend.at(' + self.ret + ')')
                        return []
                if callee.get('kind') in ('CXXDependentScopeMemberExpr', 'MemberExpr') and callee.get('member', '').endswith('operator*') and len(r['inner']) == 2:
                    a = strip(r['inner'][1])
                    an = a['referencedDecl']['name']
                    (n1, m1), (m2, p2) = self.shapes['this'], self.shapes[an]
                    if m1 != m2:
                        raise Untranslatable(f'product this * {an}: inner shapes differ')
                    self.ret = '__ret'
                    return [f'CallMul {q("__ret")} {q("this")} {q(an)} {n1} {m1} {p2}']
            raise Untranslatable(f'return of {r.get("kind")}')
        raise Untranslatable(f'statement {k} {s.get("opcode", "")}')


def ast_of(repo, cls, ns='algebra', header='covfie/core/algebra/affine.hpp'):
    with tempfile.TemporaryDirectory() as td:
        tu = os.path.join(td, 'tu.cpp')
        open(tu, 'w').write(f'#include <{header}>\n')
        p = subprocess.run(['clang++', '-std=c++20', '-DNDEBUG', '-I' + os.path.join(repo, 'lib', 'core'), '-fsyntax-only', '-Xclang', '-ast-dump=json',
                            '-Xclang', f'-ast-dump-filter=covfie::{ns}::{cls}', tu], stdout=subprocess.PIPE, stderr=subprocess.PIPE, text=True, timeout=120)
    txt = p.stdout
    dec = json.JSONDecoder()
    i = 0
    while i < len(txt):
        while i < len(txt) and txt[i].isspace():
            i += 1
        if i >= len(txt):
            break
        o, j = dec.raw_decode(txt, i)
        i = j
        if o.get('kind') == 'ClassTemplateDecl' and o.get('name') == cls:
            return [x for x in o['inner'] if x.get('kind') == 'CXXRecordDecl'][0]
    raise Untranslatable(f'class template {cls} not found: {p.stderr[:300]}')


def all_methods(d, name, out):
    if isinstance(d, dict):
        if d.get('kind') == 'CXXMethodDecl' and d.get('name') == name and any(c.get('kind') == 'CompoundStmt' for c in d.get('inner', [])):
            out.append(d)
        for c in d.get('inner', []):
            all_methods(c, name, out)
    return out


def methods(rec, name):
    out = []
    for x in rec.get('inner', []):
        if x.get('kind') == 'CXXMethodDecl' and x.get('name') == name and any(c.get('kind') == 'CompoundStmt' for c in x.get('inner', [])):
            out.append(x)
        if x.get('kind') == 'FunctionTemplateDecl' and x.get('name') == name:
            for y in x.get('inner', []):
                if y.get('kind') == 'CXXMethodDecl' and any(c.get('kind') == 'CompoundStmt' for c in y.get('inner', [])):
                    out.append(y)
    return out


def translate(md, cls, this_dims):
    f = Fn(cls, this_dims)
    for p in md.get('inner', []):
        if p.get('kind') == 'ParmVarDecl' and p.get('name') != 'args':
            if p['type']['qualType'].endswith('::vector_t'):
                f.coords.add(p['name'])
                f.shapes[p['name']] = (this_dims[0], '(DL 1)')
            else:
                f.shapes[p['name']] = parse_dims(p['type']['qualType'])
    body = [c for c in md['inner'] if c.get('kind') == 'CompoundStmt'][0]
    stmts = f.block(body)
    if f.ret is None:
        raise Untranslatable('no return')
    return stmts, f.ret, f.extra


def main(repo, out):
    rep = {'translated': [], 'untranslatable': []}
    defs = []
    N, M = '(DV "N")', '(DV "M")'
    wanted = [('g_matmul', 'matrix', 'operator*', (N, M), None),
              ('g_identity', 'matrix', 'identity', (N, M), None),
              ('g_affine_apply', 'affine', 'operator*', (N, f'(DPlus {N} (DL 1))'), 'v'),
              ('g_affine_compose', 'affine', 'operator*', (N, f'(DPlus {N} (DL 1))'), 'm'),
              ('g_translation', 'affine', 'translation', (N, f'(DPlus {N} (DL 1))'), None),
              ('g_scaling', 'affine', 'scaling', (N, f'(DPlus {N} (DL 1))'), None)]
    recs = {}
    for gname, cls, mname, this_dims, param in wanted:
        try:
            if cls not in recs:
                recs[cls] = ast_of(repo, cls)
            ms = methods(recs[cls], mname)
            if param is not None:
                ms = [m_ for m_ in ms if any(p.get('kind') == 'ParmVarDecl' and p.get('name') == param for p in m_.get('inner', []))]
            if len(ms) != 1:
                raise Untranslatable(f'{len(ms)} definitions of {cls}::{mname}' + (f' with parameter {param}' if param else ''))
            stmts, ret, extra = translate(ms[0], cls, this_dims)
            defs.append(f'Definition {gname} : func := {{| f_name := "{cls}::{mname}"; f_body := [\n    ' + ';\n    '.join(stmts) + f'];\n  f_ret := "{ret}" |}}.')
            rep['translated'].append({'name': f'{cls}::{mname}' + (f'({param})' if param else ''), 'as': gname, 'notes': extra})
        except Untranslatable as e:
            rep['untranslatable'].append({'name': f'{cls}::{mname}' + (f'({param})' if param else ''), 'why': str(e)})
            defs.append(f'(* {gname}: NOT TRANSLATED -- {e} *)')
    # the affine LAYER's lookup: backend/transformer/affine.hpp, non_owning_data_t::at
    try:
        hdr = 'covfie/core/backend/transformer/affine.hpp'
        SRC['text'] = open(os.path.join(repo, 'lib', 'core', hdr), 'rb').read().decode('utf-8', 'replace')
        rec = ast_of(repo, 'affine', ns='backend', header=hdr)
        ms = all_methods(rec, 'at', [])
        if len(ms) != 1:
            raise Untranslatable(f'{len(ms)} definitions of backend::affine::non_owning_data_t::at')
        stmts, ret, extra = translate(ms[0], 'affine_layer', (N, f'(DPlus {N} (DL 1))'))
        defs.append('Definition g_affine_layer_at : func := {| f_name := "backend::affine::at"; f_body := [\n    ' + ';\n    '.join(stmts) + f'];\n  f_ret := "{ret}" |}}.')
        rep['translated'].append({'name': 'backend::affine::non_owning_data_t::at', 'as': 'g_affine_layer_at', 'notes': extra})
    except Untranslatable as e:
        rep['untranslatable'].append({'name': 'backend::affine::non_owning_data_t::at', 'why': str(e)})
        defs.append(f'(* g_affine_layer_at: NOT TRANSLATED -- {e} *)')
    finally:
        SRC['text'] = None
    txt = ('(* GENERATED by tools/cxx_algebra.py from algebra/matrix.hpp and algebra/affine.hpp -- do not edit.\n'
           '   The loop programs of covfie::algebra as terms of MatLang.v. *)\n'
           'From Coq Require Import String List.\nFrom Covfie Require Import MatLang.\nImport ListNotations.\nLocal Open Scope string_scope.\n\n' + '\n\n'.join(defs) + '\n')
    os.makedirs(os.path.dirname(out), exist_ok=True)
    open(out, 'w').write(txt)
    return rep


if __name__ == '__main__':
    print(json.dumps(main(sys.argv[1], sys.argv[2])))
