#!/usr/bin/env python3
"""update_design.py -- splice tools/design_built_state.md (section 0, with measured numbers and the seeded-change table)
into DESIGN.md in place of its head (everything before '## 1. What covfie is')."""
import glob, os, re, subprocess
V = os.path.dirname(os.path.dirname(os.path.abspath(__file__)))
head = open(os.path.join(V, 'tools', 'design_built_state.md')).read()
vs = sorted(glob.glob(os.path.join(V, 'coq', '*.v')))
nlines = sum(len(open(f).read().split('\n')) for f in vs)
nfacts = sum(len(re.findall(r'^\s*(?:Theorem|Lemma|Corollary|Example|Fact)\s', open(f).read(), flags=re.M)) for f in vs)
table = subprocess.run(['python3', os.path.join(V, 'tools', 'seed_table.py')], stdout=subprocess.PIPE, text=True).stdout
head = head.replace('@@NFILES@@', str(len(vs))).replace('@@NLINES@@', str(nlines)).replace('@@NFACTS@@', str(nfacts)).replace('@@SEEDTABLE@@', table.strip())
d = open(os.path.join(V, 'DESIGN.md')).read()
i = d.index('## 1. What covfie is, seen from a verifier')
title = '# Verification design for acts-project/covfie — machine-checked proof in Coq 8.16\n\n'
open(os.path.join(V, 'DESIGN.md'), 'w').write(title + head + '\n' + d[i:])
print('DESIGN.md updated:', len(vs), 'files', nlines, 'lines', nfacts, 'facts')
