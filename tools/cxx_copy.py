#!/usr/bin/env python3
"""cxx_copy.py -- the re-layout copy functions make_strided_copy / make_morton_copy / make_hilbert_copy read from clang's JSON
AST as a COPY SCHEME each:

  sizes   = other.get_configuration()                                     sizes_from_source
  res     = make_unique<vector_t[]>(CAPACITY)                              capacity: Product (accumulate(.., 1, multiplies)) |
                                                                                     Curve (ipow(round_pow2(*max_element(sizes)), dimensions))
  nother  = view of other
  nd_map<decltype(sizes)>([..](decltype(sizes) t) {                        iterates_box (second argument: sizes)
      [inline stride computation of idx -- strided only; translated separately by cxx2coq as gen_strided_copy_index]
      c[k] = (static_cast<..>)(t[k])  for k < contravariant_input dims     coord_is_tuple
      idx = calculate_index(c) | calculate_index(c, sizes) | inline        index: Calc | CalcSizes | Inline
      for i < covariant_output dims: res[idx][i] = nother.at(c)[i];         components: Each (loop bound trait, lhs, rhs)
  }, sizes);
  return res;

  cxx_copy.py <repo> <out.v>      prints a JSON report.  Anything that does not fit is a problem."""
import json, os, subprocess, sys, tempfile

SRC = {}


def strip(d):
    while isinstance(d, dict) and d.get('kind') in ('ImplicitCastExpr', 'ParenExpr', 'ExprWithCleanups', 'MaterializeTemporaryExpr', 'CXXBindTemporaryExpr', 'CXXStaticCastExpr', 'CXXFunctionalCastExpr', 'ParenListExpr') and d.get('inner') and len(d['inner']) == 1:
        d = d['inner'][0]
    return d


def ref(d):
    d = strip(d)
    return d.get('referencedDecl', {}).get('name') if d.get('kind') == 'DeclRefExpr' else None


def names(d, acc):
    if isinstance(d, dict):
        n = d.get('name') or d.get('member')
        if n and d.get('kind') in ('UnresolvedLookupExpr', 'DeclRefExpr', 'CXXDependentScopeMemberExpr', 'MemberExpr', 'DependentScopeDeclRefExpr'):
            acc.append(n)
        if d.get('kind') == 'DeclRefExpr':
            acc.append(d.get('referencedDecl', {}).get('name'))
        if 'multiplies' in d.get('type', {}).get('qualType', ''):
            acc.append('multiplies')
        for c in d.get('inner', []):
            names(c, acc)
    return acc


def trait_of(d, text):
    b = d.get('range', {}).get('begin', {})
    b = b.get('expansionLoc', b)
    return text[b['offset']:b['offset'] + b.get('tokLen', 0)] if 'offset' in b else '?'


def loop_bound_trait(st, text):
    """for (size_t v = 0; v < X::dimensions; ++v) -> (v, X, body) or None"""
    if st.get('kind') != 'ForStmt':
        return None
    init, _, cond, inc, body = st['inner']
    vd = init['inner'][0] if init.get('kind') == 'DeclStmt' else {}
    c = strip(cond)
    if not (vd.get('kind') == 'VarDecl' and strip(vd['inner'][0]).get('value') == '0' and c.get('kind') == 'BinaryOperator' and c.get('opcode') == '<' and ref(c['inner'][0]) == vd.get('name')):
        return None
    b = strip(c['inner'][1])
    if b.get('kind') not in ('DependentScopeDeclRefExpr', 'CXXDependentScopeMemberExpr'):
        return None
    return vd['name'], trait_of(b, text), body


def scheme(fn, text, problems, who):
    s = {'sizes_from_source': False, 'capacity': 'Unknown', 'iterates_box': False, 'coord_is_tuple': False, 'index': 'Unknown', 'components': 'Unknown', 'returns_res': False, 'extra_statements': 0}
    body = [c for c in fn['inner'] if c.get('kind') == 'CompoundStmt'][0]['inner']
    lam = None
    for st in body:
        k = st.get('kind')
        if k == 'DeclStmt':
            for vd in st['inner']:
                n = vd.get('name')
                init = vd['inner'][0] if vd.get('inner') else {}
                ns = names(init, [])
                if n == 'sizes':
                    s['sizes_from_source'] = 'get_configuration' in ns and 'other' in ns
                elif n == 'res':
                    if 'make_unique' in ns and 'accumulate' in ns and 'multiplies' in ns and 'sizes' in ns:
                        s['capacity'] = 'Product'
                    elif 'make_unique' in ns and ns.count('ipow') == 1 and ns.count('round_pow2') == 1 and 'max_element' in ns and 'sizes' in ns:
                        s['capacity'] = 'Curve'
                elif n == 'nother':
                    if 'other' not in ns:
                        problems.append(f'{who}: nother is not a view of other')
                else:
                    s['extra_statements'] += 1
        elif k == 'CallExpr' and strip(st['inner'][0]).get('name') == 'nd_map' and len(st['inner']) == 3:
            s['iterates_box'] = ref(st['inner'][2]) == 'sizes'
            lam = strip(st['inner'][1])
        elif k == 'ReturnStmt':
            s['returns_res'] = ref(st['inner'][0]) == 'res'
        else:
            s['extra_statements'] += 1
    if lam is None or lam.get('kind') != 'LambdaExpr':
        problems.append(f'{who}: no nd_map(lambda, sizes) call')
        return s
    lb = [x for x in lam.get('inner', []) if x.get('kind') == 'CompoundStmt']
    sts = lb[-1]['inner'] if lb else []
    inline_idx = False
    for st in sts:
        k = st.get('kind')
        if k == 'DeclStmt':
            for vd in st['inner']:
                n = vd.get('name')
                init = strip(vd['inner'][0]) if vd.get('inner') else None
                if n == 'c' and init is None:
                    continue
                if n == 'idx':
                    if init is not None and init.get('kind') == 'CallExpr' and ref(init['inner'][0]) == 'calculate_index':
                        args = [ref(a) for a in init['inner'][1:]]
                        s['index'] = 'Calc' if args == ['c'] else ('CalcSizes' if args == ['c', 'sizes'] else 'Unknown')
                    elif init is not None and init.get('kind') == 'IntegerLiteral' and init.get('value') == '0':
                        inline_idx = True
                    continue
                s['extra_statements'] += 1
        elif k == 'ForStmt':
            lt = loop_bound_trait(st, text)
            if lt is None:
                s['extra_statements'] += 1
                continue
            v, trait, lbody = lt
            inner = lbody.get('inner', []) if lbody.get('kind') == 'CompoundStmt' else [lbody]
            if len(inner) == 1 and strip(inner[0]).get('kind') == 'BinaryOperator' and strip(inner[0]).get('opcode') == '=':
                a = strip(inner[0])
                l, r = strip(a['inner'][0]), strip(a['inner'][1])
                # c[k] = t[k]
                if l.get('kind') == 'ArraySubscriptExpr' and ref(l['inner'][0]) == 'c' and ref(l['inner'][1]) == v and r.get('kind') == 'ArraySubscriptExpr' and ref(r['inner'][0]) == 't' and ref(r['inner'][1]) == v and trait == 'contravariant_input_t':
                    s['coord_is_tuple'] = True
                    continue
                # res[idx][i] = nother.at(c)[i]
                ll = strip(l['inner'][0]) if l.get('kind') == 'ArraySubscriptExpr' else {}
                rr = strip(r['inner'][0]) if r.get('kind') == 'ArraySubscriptExpr' else {}
                lhs_ok = ll.get('kind') == 'ArraySubscriptExpr' and ref(ll['inner'][0]) == 'res' and ref(ll['inner'][1]) == 'idx' and ref(l['inner'][1]) == v
                rcal = strip(rr['inner'][0]) if rr.get('kind') == 'CallExpr' and len(rr.get('inner', [])) == 2 else {}
                rhs_ok = rcal.get('member') == 'at' and ref(rcal['inner'][0]) == 'nother' and ref(rr['inner'][1]) == 'c' and ref(r['inner'][1]) == v
                if lhs_ok and rhs_ok:
                    s['components'] = 'Each_' + trait
                    continue
            # the inline stride computation of make_strided_copy (two nested loops over the input dimensions): translated by cxx2coq
            if inline_idx and trait == 'contravariant_input_t' and 'idx' in names(lbody, []) and 'sizes' in names(lbody, []):
                s['index'] = 'Inline'
                continue
            s['extra_statements'] += 1
        else:
            s['extra_statements'] += 1
    return s


def main(repo, out):
    rep = {'problems': [], 'schemes': {}}
    rows = []
    for layer, fname in (('strided', 'make_strided_copy'), ('morton', 'make_morton_copy'), ('hilbert', 'make_hilbert_copy')):
        hdr = f'covfie/core/backend/transformer/{layer}.hpp'
        text = open(os.path.join(repo, 'lib', 'core', hdr), 'rb').read().decode('utf-8', 'replace')
        with tempfile.TemporaryDirectory() as td:
            tu = os.path.join(td, 'tu.cpp')
            open(tu, 'w').write(f'#include <{hdr}>\n')
            p = subprocess.run(['clang++', '-std=c++20', '-DNDEBUG', '-I' + os.path.join(repo, 'lib', 'core'), '-fsyntax-only', '-Xclang', '-ast-dump=json',
                                '-Xclang', f'-ast-dump-filter=covfie::backend::{layer}', tu], stdout=subprocess.PIPE, stderr=subprocess.PIPE, text=True, timeout=180)
        txt, dec, i, objs = p.stdout, json.JSONDecoder(), 0, []
        while i < len(txt):
            while i < len(txt) and txt[i].isspace():
                i += 1
            if i >= len(txt):
                break
            o, j = dec.raw_decode(txt, i)
            objs.append(o)
            i = j
        fns = []

        def find(d):
            if isinstance(d, dict):
                if d.get('kind') in ('CXXMethodDecl', 'FunctionDecl') and d.get('name') == fname and any(c.get('kind') == 'CompoundStmt' for c in d.get('inner', [])):
                    fns.append(d)
                for c in d.get('inner', []):
                    find(c)
        for o in objs:
            find(o)
        if len(fns) != 1:
            rep['problems'].append(f'{len(fns)} definitions of {fname}')
            continue
        try:
            s = scheme(fns[0], text, rep['problems'], fname)
        except Exception as ex:
            rep['problems'].append(f'{fname}: {type(ex).__name__}: {ex}')
            continue
        rep['schemes'][layer] = s
        rows.append((layer, s))

    def b(x):
        return 'true' if x else 'false'
    txt = ('(* GENERATED by tools/cxx_copy.py from strided.hpp, morton.hpp, hilbert.hpp -- do not edit. *)\nFrom Coq Require Import String List.\nImport ListNotations.\nLocal Open Scope string_scope.\n\n'
           'Inductive capacity := Product | Curve | UnknownCapacity.\nInductive index_kind := Inline | Calc | CalcSizes | UnknownIndex.\n'
           'Record copy_scheme := { cs_sizes_from_source : bool; cs_capacity : capacity; cs_iterates_box : bool; cs_coord_is_tuple : bool;\n'
           '                        cs_index : index_kind; cs_components : string; cs_returns_res : bool; cs_extra_statements : nat }.\n')
    for layer, s in rows:
        cap = {'Product': 'Product', 'Curve': 'Curve'}.get(s['capacity'], 'UnknownCapacity')
        idx = {'Inline': 'Inline', 'Calc': 'Calc', 'CalcSizes': 'CalcSizes'}.get(s['index'], 'UnknownIndex')
        txt += (f'Definition copy_{layer} : copy_scheme := {{| cs_sizes_from_source := {b(s["sizes_from_source"])}; cs_capacity := {cap}; cs_iterates_box := {b(s["iterates_box"])}; '
                f'cs_coord_is_tuple := {b(s["coord_is_tuple"])}; cs_index := {idx}; cs_components := "{s["components"]}"; cs_returns_res := {b(s["returns_res"])}; cs_extra_statements := {s["extra_statements"]} |}}.\n')
    txt += f'Definition copy_problems : nat := {len(rep["problems"])}.\n'
    os.makedirs(os.path.dirname(out), exist_ok=True)
    open(out, 'w').write(txt)
    return rep


if __name__ == '__main__':
    print(json.dumps(main(sys.argv[1], sys.argv[2])))
