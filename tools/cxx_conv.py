#!/usr/bin/env python3
"""cxx_conv.py -- the converting constructors `owning_data_t(const T & o)` of the layers that have one (affine, linear,
nearest_neighbour, strided, morton, hilbert), read from clang's JSON AST: for each member initialiser what it is built from.

  affine             m_transform <- o.m_transform            m_backend <- o.m_backend        (the backend's own converting constructor)
  linear             m_backend <- o.m_backend
  nearest_neighbour  m_backend <- o.get_backend()
  strided            m_sizes <- o.get_configuration()         m_storage <- (product of m_sizes, make_strided_copy(o))
  morton / hilbert   m_sizes <- o.get_configuration()         m_storage <- (ipow(round_pow2(max m_sizes), N), make_morton_copy(o) / make_hilbert_copy(o))

  cxx_conv.py <repo> <out.v>      prints a JSON report"""
import json, os, subprocess, sys, tempfile

LAYERS = ['affine', 'linear', 'nearest_neighbour', 'strided', 'morton', 'hilbert']


def names(d, acc):
    if isinstance(d, dict):
        n = d.get('name') or d.get('member')
        if n and d.get('kind') in ('UnresolvedLookupExpr', 'DeclRefExpr', 'CXXDependentScopeMemberExpr', 'MemberExpr', 'DependentScopeDeclRefExpr', 'UnresolvedMemberExpr'):
            acc.append(n)
        if d.get('kind') == 'DeclRefExpr':
            acc.append(d.get('referencedDecl', {}).get('name'))
        if 'multiplies' in d.get('type', {}).get('qualType', ''):
            acc.append('multiplies')
        for c in d.get('inner', []):
            names(c, acc)
    return acc


def source_kind(member, ns):
    s = set(ns)
    if member == 'm_backend' and 'o' in s and 'm_backend' in s and len(s - {'o', 'm_backend', None}) == 0:
        return 'BackendOfSource'
    if member == 'm_backend' and 'o' in s and 'get_backend' in s and len(s - {'o', 'get_backend', None}) == 0:
        return 'BackendOfSource'
    if member == 'm_transform' and s - {None} == {'o', 'm_transform'}:
        return 'SameMemberOfSource'
    if member == 'm_sizes' and s - {None} == {'o', 'get_configuration'}:
        return 'ConfigurationOfSource'
    if member in ('m_storage',):
        copy = [x for x in s if x and x.startswith('make_') and x.endswith('_copy')]
        if len(copy) == 1 and 'o' in s and 'm_sizes' in s:
            if {'accumulate', 'multiplies'} <= s and not ({'ipow', 'round_pow2'} & s):
                return 'ProductAnd_' + copy[0]
            if {'ipow', 'round_pow2', 'max_element'} <= s and 'accumulate' not in s:
                return 'CurveAnd_' + copy[0]
    return 'Other_' + '_'.join(sorted(x for x in s if x))[:60]


def main(repo, out):
    rep = {'problems': [], 'layers': {}}
    for layer in LAYERS:
        hdr = f'covfie/core/backend/transformer/{layer}.hpp'
        with tempfile.TemporaryDirectory() as td:
            tu = os.path.join(td, 'tu.cpp')
            open(tu, 'w').write(f'#include <{hdr}>\n')
            p = subprocess.run(['clang++', '-std=c++20', '-DNDEBUG', '-I' + os.path.join(repo, 'lib', 'core'), '-fsyntax-only', '-Xclang', '-ast-dump=json',
                                '-Xclang', f'-ast-dump-filter=covfie::backend::{layer}', tu], stdout=subprocess.PIPE, stderr=subprocess.PIPE, text=True, timeout=180)
        txt, dec, i, objs = p.stdout, json.JSONDecoder(), 0, []
        while i < len(txt):
            while i < len(txt) and txt[i].isspace():
                i += 1
            if i >= len(txt):
                break
            o, j = dec.raw_decode(txt, i)
            objs.append(o)
            i = j
        ctors = []

        def find(d, in_owning):
            if isinstance(d, dict):
                if d.get('kind') == 'CXXRecordDecl' and d.get('name') in ('owning_data_t', 'non_owning_data_t'):
                    in_owning = d.get('name') == 'owning_data_t'
                if in_owning and d.get('kind') == 'CXXConstructorDecl':
                    ps = [x for x in d.get('inner', []) if x.get('kind') == 'ParmVarDecl']
                    if len(ps) == 1 and ps[0].get('type', {}).get('qualType') == 'const T &' and any(c.get('kind') == 'CXXCtorInitializer' for c in d.get('inner', [])):
                        ctors.append(d)
                for c in d.get('inner', []):
                    find(c, in_owning)
        for o in objs:
            find(o, False)
        if len(ctors) != 1:
            rep['problems'].append(f'{layer}: {len(ctors)} converting constructors owning_data_t(const T &)')
            continue
        inits = []
        for c in ctors[0]['inner']:
            if c.get('kind') == 'CXXCtorInitializer':
                m = c.get('anyInit', {}).get('name')
                inits.append((m, source_kind(m, names(c, []))))
        body = [c for c in ctors[0]['inner'] if c.get('kind') == 'CompoundStmt']
        if body and body[0].get('inner'):
            inits.append(('<body>', 'Other_nonempty_body'))
        rep['layers'][layer] = inits
    rows = '; '.join(f'("{l}", [' + '; '.join(f'("{m}", "{k}")' for m, k in rep['layers'].get(l, [])) + '])' for l in LAYERS)
    txt = ('(* GENERATED by tools/cxx_conv.py from the transformer layers -- do not edit. *)\nFrom Coq Require Import String List.\nImport ListNotations.\nLocal Open Scope string_scope.\n\n'
           f'Definition conv_ctors : list (string * list (string * string)) := [{rows}].\n'
           f'Definition conv_problems : nat := {len(rep["problems"])}.\n')
    os.makedirs(os.path.dirname(out), exist_ok=True)
    open(out, 'w').write(txt)
    return rep


if __name__ == '__main__':
    print(json.dumps(main(sys.argv[1], sys.argv[2])))
