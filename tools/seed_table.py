#!/usr/bin/env python3
"""seed_table.py -- markdown table of /verif/seeded/*/meta.json (which checks catch which seeded change)"""
import glob, json, os
V = os.path.dirname(os.path.dirname(os.path.abspath(__file__)))
rows = []
for d in sorted(glob.glob(os.path.join(V, 'seeded', '*'))):
    mp = os.path.join(d, 'meta.json')
    if not os.path.exists(mp):
        continue
    m = json.load(open(mp))
    notes = (m.get('needs_to_manifest') or '').replace('\n', ' ')
    first = notes.split('. ')[0][:150]
    caught = ', '.join(m.get('caught_by', [])) or '**none**'
    how = ''
    for c in m.get('caught_by', [])[:1]:
        f = m['checks'][c].get('first') or []
        how = (f[0][:110] + '…') if f else 'broken obligation / correspondence (see replay)'
    rows.append(f"| `{os.path.basename(d)}` | {m['breaks_property']} | {first} | {caught} | {how.replace('|', '/')} |")
print('| seeded change | property | what it does (first sentence of its notes) | caught by | first report |')
print('|---|---|---|---|---|')
print('\n'.join(rows))
