#!/usr/bin/env python3
"""cxx_ppf.py -- read the make_parameter_pack_for overload table (parameter_pack.hpp) from clang's JSON AST.

  cxx_ppf.py <repo> <out.v>     prints a JSON report

For each overload: the stack depth it is enabled for (its enable_if condition), the layer level of each parameter's
configuration type (nth_backend<..., k>), and for each argument handed to make_parameter_pack the layer level named in
std::forward<...nth_backend<..., k>...> (read from the source text at the node's offsets: the JSON drops explicit template
arguments of an unresolved call) and the POSITION of the parameter it forwards.  Also the shape of parameter_pack itself
(head `x` initialised from the first constructor argument, tail `xs` from the rest, in order)."""
import json, os, re, subprocess, sys, tempfile


def strip(d):
    while isinstance(d, dict) and d.get('kind') in ('ImplicitCastExpr', 'ParenExpr', 'ExprWithCleanups', 'MaterializeTemporaryExpr') and d.get('inner'):
        d = d['inner'][0]
    return d


def dump(repo, flt):
    with tempfile.TemporaryDirectory() as td:
        tu = os.path.join(td, 'tu.cpp')
        open(tu, 'w').write('#include <covfie/core/parameter_pack.hpp>\n')
        p = subprocess.run(['clang++', '-std=c++20', '-DNDEBUG', '-I' + os.path.join(repo, 'lib', 'core'), '-fsyntax-only', '-Xclang', '-ast-dump=json',
                            '-Xclang', f'-ast-dump-filter={flt}', tu], stdout=subprocess.PIPE, stderr=subprocess.PIPE, text=True, timeout=120)
    txt, dec, i, out = p.stdout, json.JSONDecoder(), 0, []
    while i < len(txt):
        while i < len(txt) and txt[i].isspace():
            i += 1
        if i >= len(txt):
            break
        o, j = dec.raw_decode(txt, i)
        out.append(o)
        i = j
    return out


def main(repo, out):
    src = open(os.path.join(repo, 'lib', 'core', 'covfie', 'core', 'parameter_pack.hpp'), 'rb').read().decode('utf-8', 'replace')
    rep = {'overloads': [], 'problems': []}
    rows = []
    for o in dump(repo, 'covfie::make_parameter_pack_for'):
        if o.get('kind') != 'FunctionTemplateDecl':
            continue
        try:
            nt = [x for x in o['inner'] if x.get('kind') == 'NonTypeTemplateParmDecl']
            m = re.search(r'backend_depth<typename F::backend_t>::value == (\d+)', nt[0]['type']['qualType']) if nt else None
            if not m:
                raise ValueError('no enable_if on backend_depth')
            depth = int(m.group(1))
            fd = [x for x in o['inner'] if x.get('kind') == 'FunctionDecl'][0]
            params = [x for x in fd['inner'] if x.get('kind') == 'ParmVarDecl']
            plevels = []
            for p in params:
                mm = re.search(r'nth_backend<typename F::backend_t, (\d+)>::type::configuration_t &&$', p['type']['qualType'])
                if not mm:
                    raise ValueError(f'parameter {p.get("name")} : {p["type"]["qualType"]}')
                plevels.append(int(mm.group(1)))
            names = [p['name'] for p in params]
            body = [x for x in fd['inner'] if x.get('kind') == 'CompoundStmt'][0]
            ret = body['inner'][0]
            call = strip(ret['inner'][0])
            if ret.get('kind') != 'ReturnStmt' or call.get('kind') != 'CallExpr' or strip(call['inner'][0]).get('name') != 'make_parameter_pack':
                raise ValueError('body is not return make_parameter_pack(...)')
            fwd = []
            for a in call['inner'][1:]:
                a = strip(a)
                callee = strip(a['inner'][0]) if a.get('kind') == 'CallExpr' else {}
                arg = strip(a['inner'][1]) if a.get('kind') == 'CallExpr' and len(a['inner']) == 2 else {}
                if callee.get('name') != 'forward' or arg.get('kind') != 'DeclRefExpr':
                    raise ValueError('argument is not std::forward<...>(a_k)')
                b, e = a['range']['begin'], a['range']['end']
                b = b.get('expansionLoc', b)
                e = e.get('expansionLoc', e)
                text = src[b['offset']:e['offset'] + e.get('tokLen', 1)]
                mm = re.search(r'std::forward<\s*typename\s+utility::nth_backend<\s*typename\s+F::backend_t,\s*(\d+)>::\s*type::configuration_t>', text)
                if not mm:
                    raise ValueError(f'forward type in: {text[:120]}')
                fwd.append((int(mm.group(1)), names.index(arg['referencedDecl']['name'])))
            rows.append((depth, plevels, fwd))
            rep['overloads'].append({'depth': depth, 'parameter_levels': plevels, 'forwarded': fwd})
        except Exception as ex:
            rep['problems'].append(f'{type(ex).__name__}: {ex}')
    # parameter_pack<T, Ts...>: x(std::forward<T>(_x)), xs(std::forward<Ts>(_xs)...)
    shape = 'Unknown'
    try:
        for o in dump(repo, 'covfie::parameter_pack'):
            def ctors(d, acc):
                if isinstance(d, dict):
                    if d.get('kind') == 'CXXConstructorDecl' and any(c.get('kind') == 'CXXCtorInitializer' for c in d.get('inner', [])):
                        acc.append(d)
                    for c in d.get('inner', []):
                        ctors(c, acc)
                return acc
            for c in ctors(o, []):
                ps = [x.get('name') for x in c['inner'] if x.get('kind') == 'ParmVarDecl']
                inits = [x for x in c['inner'] if x.get('kind') == 'CXXCtorInitializer']

                def refs(d, acc):
                    if isinstance(d, dict):
                        if d.get('kind') == 'DeclRefExpr':
                            acc.append(d['referencedDecl']['name'])
                        for cc in d.get('inner', []):
                            refs(cc, acc)
                    return acc
                got = [(i.get('anyInit', {}).get('name'), refs(i, [])) for i in inits]
                if ps == ['_x', '_xs'] and got == [('x', ['_x']), ('xs', ['_xs'])]:
                    shape = 'HeadThenTail'
    except Exception as ex:
        rep['problems'].append(f'parameter_pack: {ex}')
    rep['pack_shape'] = shape
    rows.sort()

    def lst(xs):
        return '[' + '; '.join(map(str, xs)) + ']'
    body = ';\n  '.join(f'({d}, {lst(pl)}, [' + '; '.join(f'({a}, {b})' for a, b in fw) + '])' for d, pl, fw in rows)
    txt = ('(* GENERATED by tools/cxx_ppf.py from parameter_pack.hpp -- do not edit. *)\nFrom Coq Require Import List.\nImport ListNotations.\n\n'
           'Inductive pack_shape := HeadThenTail | Unknown.\n'
           '(* (stack depth the overload is enabled for, layer level of each parameter, (level named in std::forward, position of the forwarded parameter)) *)\n'
           f'Definition ppf_overloads : list (nat * list nat * list (nat * nat)) := [\n  {body}].\n'
           f'Definition ppf_pack_shape : pack_shape := {shape}.\n'
           f'Definition ppf_problems : nat := {len(rep["problems"])}.\n')
    os.makedirs(os.path.dirname(out), exist_ok=True)
    open(out, 'w').write(txt)
    return rep


if __name__ == '__main__':
    print(json.dumps(main(sys.argv[1], sys.argv[2])))
