#!/usr/bin/env python3
"""cxx_own.py -- the special members of array<..>::owning_data_t (backend/primitive/array.hpp) read from clang's JSON AST:
which are defaulted, whether a destructor is declared, the member initialisers and body of the copy constructor, and the
body of the copy assignment as a list of abstract actions (its self-assignment guard and `return *this` included).

  cxx_own.py <repo> <out.v>      prints a JSON report

Actions:  SetSize  m_size = o.m_size            (initialiser m_size(o.m_size))
          Alloc    m_ptr = std::make_unique<vector_t[]>(m_size)   (initialiser m_ptr(make_unique(m_size)); as an assignment it
                   also releases the buffer held so far, after the new one has been allocated)
          Copy     if (o.m_ptr && m_size > 0) std::memcpy(m_ptr.get(), o.m_ptr.get(), m_size * sizeof(vector_t))
          Assert   assert(..) (no effect with NDEBUG; the AST is taken with -DNDEBUG, where it is a void cast)
          Other s  anything else"""
import json, os, subprocess, sys, tempfile


def strip(d):
    while isinstance(d, dict) and d.get('kind') in ('ImplicitCastExpr', 'ParenExpr', 'ExprWithCleanups', 'MaterializeTemporaryExpr', 'CXXBindTemporaryExpr', 'ParenListExpr') and d.get('inner') and len(d['inner']) == 1:
        d = d['inner'][0]
    return d


def mem(d):
    d = strip(d)
    if d.get('kind') in ('MemberExpr', 'CXXDependentScopeMemberExpr'):
        base = strip(d['inner'][0]) if d.get('inner') else {}
        who = 'this' if base.get('kind') == 'CXXThisExpr' or not d.get('inner') else base.get('referencedDecl', {}).get('name', '?')
        return who, d.get('member') or d.get('name')
    return None


def is_make_unique_of_size(d):
    d = strip(d)
    if d.get('kind') != 'CallExpr' or len(d.get('inner', [])) != 2:
        return False
    c = strip(d['inner'][0])
    return c.get('name') == 'make_unique' and mem(d['inner'][1]) == ('this', 'm_size')


def is_copy(d):
    """if (o.m_ptr && m_size > 0) { memcpy(m_ptr.get(), o.m_ptr.get(), m_size * sizeof(..)); }"""
    if d.get('kind') != 'IfStmt' or len(d['inner']) != 2:
        return False
    c = strip(d['inner'][0])
    if not (c.get('kind') == 'BinaryOperator' and c.get('opcode') == '&&' and mem(c['inner'][0]) == ('o', 'm_ptr')):
        return False
    g = strip(c['inner'][1])
    if not (g.get('kind') == 'BinaryOperator' and g.get('opcode') == '>' and mem(g['inner'][0]) == ('this', 'm_size') and strip(g['inner'][1]).get('value') == '0'):
        return False
    body = d['inner'][1].get('inner', [])
    if len(body) != 1:
        return False
    call = strip(body[0])
    if call.get('kind') != 'CallExpr' or len(call['inner']) != 4:
        return False
    f = strip(call['inner'][0])
    if (f.get('referencedDecl', {}).get('name') or f.get('name')) != 'memcpy':
        return False

    def get_of(x):
        x = strip(x)
        if x.get('kind') == 'CallExpr' and len(x['inner']) == 1:
            g_ = strip(x['inner'][0])
            if g_.get('member') == 'get':
                return mem(g_['inner'][0])
        return None
    n = strip(call['inner'][3])
    size_ok = n.get('kind') == 'BinaryOperator' and n.get('opcode') == '*' and mem(n['inner'][0]) == ('this', 'm_size') and strip(n['inner'][1]).get('name') == 'sizeof'
    return get_of(call['inner'][1]) == ('this', 'm_ptr') and get_of(call['inner'][2]) == ('o', 'm_ptr') and size_ok


def action(st):
    s = strip(st)
    k = s.get('kind')
    if k == 'BinaryOperator' and s.get('opcode') == '=':
        l = mem(s['inner'][0])
        if l == ('this', 'm_size') and mem(s['inner'][1]) == ('o', 'm_size'):
            return 'SetSize'
        if l == ('this', 'm_ptr') and is_make_unique_of_size(s['inner'][1]):
            return 'Alloc'
    if k == 'CXXStaticCastExpr' and s.get('type', {}).get('qualType') == 'void':
        return 'Assert'
    if k == 'IfStmt' and is_copy(s):
        return 'Copy'
    return 'Other "' + str(k) + '"'


def main(repo, out):
    with tempfile.TemporaryDirectory() as td:
        tu = os.path.join(td, 'tu.cpp')
        open(tu, 'w').write('#include <covfie/core/backend/primitive/array.hpp>\n')
        p = subprocess.run(['clang++', '-std=c++20', '-DNDEBUG', '-I' + os.path.join(repo, 'lib', 'core'), '-fsyntax-only', '-Xclang', '-ast-dump=json',
                            '-Xclang', '-ast-dump-filter=covfie::backend::array', tu], stdout=subprocess.PIPE, stderr=subprocess.PIPE, text=True, timeout=180)
    txt, dec, i, objs = p.stdout, json.JSONDecoder(), 0, []
    while i < len(txt):
        while i < len(txt) and txt[i].isspace():
            i += 1
        if i >= len(txt):
            break
        o, j = dec.raw_decode(txt, i)
        objs.append(o)
        i = j
    recs = []

    def find(d):
        if isinstance(d, dict):
            if d.get('kind') == 'CXXRecordDecl' and d.get('name') == 'owning_data_t' and d.get('inner'):
                recs.append(d)
            for c in d.get('inner', []):
                find(c)
    for o in objs:
        find(o)
    rep = {'problems': []}
    flags = {'move_ctor_defaulted': False, 'move_assign_defaulted': False, 'dtor_declared': False, 'copy_assign_guarded': False, 'copy_assign_returns_this': False}
    copy_ctor, copy_assign, fields = ['Other "missing"'], ['Other "missing"'], []
    if len(recs) != 1:
        rep['problems'].append(f'{len(recs)} definitions of array::owning_data_t')
    else:
        for x in recs[0]['inner']:
            k, ty = x.get('kind'), x.get('type', {}).get('qualType', '')
            if k == 'FieldDecl':
                fields.append((x['name'], ty))
            if k == 'CXXDestructorDecl' and not x.get('isImplicit'):
                flags['dtor_declared'] = True
            if k == 'CXXConstructorDecl' and ty.endswith('(covfie::backend::array::owning_data_t &&)'):
                flags['move_ctor_defaulted'] = x.get('explicitlyDefaulted') == 'default'
            if k == 'CXXMethodDecl' and x.get('name') == 'operator=' and ty.endswith('(covfie::backend::array::owning_data_t &&)'):
                flags['move_assign_defaulted'] = x.get('explicitlyDefaulted') == 'default'
            if k == 'CXXConstructorDecl' and ty.endswith('(const covfie::backend::array::owning_data_t &)'):
                acts = []
                for c in x.get('inner', []):
                    if c.get('kind') == 'CXXCtorInitializer':
                        n = c.get('anyInit', {}).get('name')
                        e = c['inner'][0] if c.get('inner') else {}
                        if n == 'm_size' and mem(e) == ('o', 'm_size'):
                            acts.append('SetSize')
                        elif n == 'm_ptr' and is_make_unique_of_size(e):
                            acts.append('Alloc')
                        else:
                            acts.append(f'Other "init {n}"')
                    if c.get('kind') == 'CompoundStmt':
                        acts += [action(s) for s in c.get('inner', [])]
                copy_ctor = acts
            if k == 'CXXMethodDecl' and x.get('name') == 'operator=' and ty.endswith('(const covfie::backend::array::owning_data_t &)'):
                body = [c for c in x.get('inner', []) if c.get('kind') == 'CompoundStmt']
                sts = body[0].get('inner', []) if body else []
                if sts and sts[-1].get('kind') == 'ReturnStmt':
                    r = strip(sts[-1]['inner'][0]) if sts[-1].get('inner') else {}
                    flags['copy_assign_returns_this'] = r.get('kind') == 'UnaryOperator' and r.get('opcode') == '*' and strip(r['inner'][0]).get('kind') == 'CXXThisExpr'
                    sts = sts[:-1]
                if len(sts) == 1 and sts[0].get('kind') == 'IfStmt' and len(sts[0]['inner']) == 2:
                    c = strip(sts[0]['inner'][0])
                    a, b = (strip(c['inner'][0]), strip(c['inner'][1])) if c.get('kind') == 'BinaryOperator' and c.get('opcode') == '!=' else ({}, {})
                    if a.get('kind') == 'CXXThisExpr' and b.get('kind') == 'UnaryOperator' and b.get('opcode') == '&' and strip(b['inner'][0]).get('referencedDecl', {}).get('name') == 'o':
                        flags['copy_assign_guarded'] = True
                        sts = sts[0]['inner'][1].get('inner', [])
                copy_assign = [action(s) for s in sts]
    rep.update(flags)
    rep['copy_ctor'] = copy_ctor
    rep['copy_assign'] = copy_assign
    rep['fields'] = fields

    def b(x):
        return 'true' if x else 'false'
    txt = ('(* GENERATED by tools/cxx_own.py from backend/primitive/array.hpp -- do not edit. *)\nFrom Coq Require Import String List.\nImport ListNotations.\nLocal Open Scope string_scope.\n\n'
           'Inductive act := SetSize | Alloc | Copy | Assert | Other (what : string).\n'
           f'Definition own_move_ctor_defaulted : bool := {b(flags["move_ctor_defaulted"])}.\n'
           f'Definition own_move_assign_defaulted : bool := {b(flags["move_assign_defaulted"])}.\n'
           f'Definition own_dtor_declared : bool := {b(flags["dtor_declared"])}.\n'
           f'Definition own_copy_ctor : list act := [{"; ".join(copy_ctor)}].\n'
           f'Definition own_copy_assign_guarded : bool := {b(flags["copy_assign_guarded"])}.\n'
           f'Definition own_copy_assign : list act := [{"; ".join(copy_assign)}].\n'
           f'Definition own_copy_assign_returns_this : bool := {b(flags["copy_assign_returns_this"])}.\n'
           'Definition own_fields : list (string * string) := [' + '; '.join(f'("{n}", "{t}")' for n, t in fields) + '].\n')
    os.makedirs(os.path.dirname(out), exist_ok=True)
    open(out, 'w').write(txt)
    return rep


if __name__ == '__main__':
    print(json.dumps(main(sys.argv[1], sys.argv[2])))
