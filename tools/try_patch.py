#!/usr/bin/env python3
"""try_patch.py <patch.diff> <Cnn> [<Cnn>...] -- apply a seeded change to /repo, run the quick checks,
undo the change (always), and print one summary line per check."""
import subprocess, sys, os, time
patch = sys.argv[1]
props = sys.argv[2:]
r = subprocess.run(['git', '-C', '/repo', 'apply', '--check', patch], capture_output=True, text=True)
if r.returncode:
    print('PATCH DOES NOT APPLY:', r.stderr[:500]); sys.exit(2)
subprocess.run(['git', '-C', '/repo', 'apply', patch], check=True)
try:
    for p in props:
        t = time.time()
        env = dict(os.environ, VERIF_EVIDENCE_DIR='/tmp/try_patch_evidence')
        r = subprocess.run([sys.executable, '/verif/check.py', p, '--tier', 'quick'], capture_output=True, text=True, cwd='/verif', timeout=3000)
        viol = [l for l in r.stdout.split('\n') if l.startswith('VIOLATION') or l.startswith('  ')][:6]
        print(f'== {p}: rc={r.returncode} in {time.time()-t:.0f}s')
        for l in viol:
            print('   ', l[:400])
finally:
    subprocess.run(['git', '-C', '/repo', 'checkout', '--', '.'], check=True)
    print('repo restored:', subprocess.run(['git', '-C', '/repo', 'status', '--short'], capture_output=True, text=True).stdout.strip() or 'clean')
