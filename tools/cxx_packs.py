#!/usr/bin/env python3
"""cxx_packs.py -- translate the three layers whose lookup is a pack expansion over an index sequence
(clamp::adjust, shuffle::shuffle, covariant_cast::at_helper, and the `at` that calls each) from clang's AST
into a small expression language (coq/PackLang.v):

    helper:  return { E(Is)... };          E ::= arr[Is] | arr.at(Is) | f(E, ...) | static_cast<T>(E) | m_backend.at(arg)[Is]
    at:      return m_backend.at(helper(arg, SEQ{}));      or      return helper(arg, SEQ{});

Anything else is emitted as PUnknown / AtUnknown, for which the refinement lemmas of Refine_Packs.v do not hold.
Emits coq/gen/Gen_Packs.v."""
import json, os, subprocess, sys, tempfile
sys.path.insert(0, os.path.dirname(os.path.abspath(__file__)))
import cxx2coq

LAYERS = [('clamp', 'adjust', 'backend/transformer/clamp.hpp'), ('shuffle', 'shuffle', 'backend/transformer/shuffle.hpp'),
          ('covariant_cast', 'at_helper', 'backend/transformer/covariant_cast.hpp')]


def strip(d):
    while isinstance(d, dict) and d.get('kind') in ('ImplicitCastExpr', 'ParenExpr', 'ExprWithCleanups', 'MaterializeTemporaryExpr', 'CXXBindTemporaryExpr'):
        d = d['inner'][0]
    return d


def ref_name(d):
    d = strip(d)
    if d.get('kind') == 'DeclRefExpr':
        return d.get('referencedDecl', {}).get('name')
    if d.get('kind') == 'MemberExpr':
        return d.get('name')
    return None


def is_backend_at(d):
    """m_backend.at(arg) -> arg name"""
    d = strip(d)
    if d.get('kind') in ('CallExpr', 'CXXMemberCallExpr'):
        callee = strip(d['inner'][0])
        if callee.get('kind') in ('CXXDependentScopeMemberExpr', 'MemberExpr') and (callee.get('member') == 'at' or callee.get('name') == 'at'):
            base = strip(callee['inner'][0]) if callee.get('inner') else {}
            if ref_name(base) == 'm_backend' and len(d['inner']) == 2:
                return ref_name(d['inner'][1])
    return None


def pexp(d):
    d = strip(d)
    k = d.get('kind')
    if k == 'ArraySubscriptExpr':
        a, i = d['inner']
        if ref_name(i) == 'Is':
            arg = is_backend_at(a)
            if arg:
                return f'PBackElem "{arg}"'
            n = ref_name(a)
            if n:
                return f'PElem "{n}"'
    if k in ('CallExpr', 'CXXMemberCallExpr'):
        callee = strip(d['inner'][0])
        args = d['inner'][1:]
        if callee.get('kind') in ('CXXDependentScopeMemberExpr', 'MemberExpr') and (callee.get('member') == 'at' or callee.get('name') == 'at') and len(args) == 1 and ref_name(args[0]) == 'Is':
            n = ref_name(callee['inner'][0])
            if n:
                return f'PElem "{n}"'
        if callee.get('kind') in ('UnresolvedLookupExpr', 'DeclRefExpr'):
            fn = callee.get('name') or callee.get('referencedDecl', {}).get('name')
            sub = [pexp(a) for a in args]
            return f'PCall "{fn}" [' + '; '.join(sub) + ']'
    if k == 'CXXStaticCastExpr':
        ty = d.get('type', {}).get('qualType', '?')
        return f'PCast "{ty}" ({pexp(d["inner"][0])})'
    return f'PUnknown "{k}"'


def methods(d, out, names):
    if not isinstance(d, dict):
        return
    if d.get('kind') == 'CXXMethodDecl' and d.get('name') in names and any(c.get('kind') == 'CompoundStmt' for c in d.get('inner', [])):
        out.setdefault(d['name'], d)
    for c in d.get('inner', []):
        methods(c, out, names)


def translate(repo, layer, helper, header):
    with tempfile.TemporaryDirectory() as td:
        tu = os.path.join(td, 'tu.cpp')
        open(tu, 'w').write(f'#include <covfie/core/{header}>\n')
        p = subprocess.run(['clang++', '-std=c++20', '-DNDEBUG', '-I' + os.path.join(repo, 'lib', 'core'), '-fsyntax-only', '-Xclang', '-ast-dump=json',
                            '-Xclang', f'-ast-dump-filter=covfie::backend::{layer}::non_owning_data_t', tu], stdout=subprocess.PIPE, stderr=subprocess.PIPE, text=True, timeout=120)
    docs = cxx2coq.load_docs(p.stdout)
    found = {}
    for d in docs:
        methods(d, found, (helper, 'at'))
    elem, atform = 'PUnknown "helper not found"', 'AtUnknown "at not found"'
    if helper in found:
        body = [c for c in found[helper]['inner'] if c.get('kind') == 'CompoundStmt'][0]
        st = [c for c in body.get('inner', [])]
        if len(st) == 1 and st[0].get('kind') == 'ReturnStmt':
            il = strip(st[0]['inner'][0])
            if il.get('kind') == 'InitListExpr' and len(il.get('inner', [])) == 1 and strip(il['inner'][0]).get('kind') == 'PackExpansionExpr':
                elem = pexp(strip(il['inner'][0])['inner'][0])
            else:
                elem = f'PUnknown "return is not a single pack expansion"'
        else:
            elem = f'PUnknown "body is not a single return ({len(st)} statements)"'
    if 'at' in found:
        body = [c for c in found['at']['inner'] if c.get('kind') == 'CompoundStmt'][0]
        st = [c for c in body.get('inner', [])]
        if len(st) == 1 and st[0].get('kind') == 'ReturnStmt':
            e = strip(st[0]['inner'][0])

            def helper_call(x):
                x = strip(x)
                if x.get('kind') in ('CallExpr', 'CXXMemberCallExpr') and strip(x['inner'][0]).get('kind') in ('UnresolvedMemberExpr', 'MemberExpr', 'UnresolvedLookupExpr') and len(x['inner']) == 3:
                    arg = ref_name(x['inner'][1])
                    seq = strip(x['inner'][2]).get('type', {}).get('qualType', '?')
                    return arg, seq
                return None
            hc = helper_call(e)
            if hc:
                atform = f'AtHelper "{hc[0]}" "{hc[1]}"'
            elif e.get('kind') in ('CallExpr', 'CXXMemberCallExpr'):
                callee = strip(e['inner'][0])
                if callee.get('kind') in ('CXXDependentScopeMemberExpr', 'MemberExpr') and callee.get('member', callee.get('name')) == 'at' and ref_name(callee['inner'][0]) == 'm_backend' and len(e['inner']) == 2:
                    hc = helper_call(e['inner'][1])
                    if hc:
                        atform = f'AtBackendOfHelper "{hc[0]}" "{hc[1]}"'
        else:
            atform = f'AtUnknown "body is not a single return ({len(st)} statements)"'
    return elem, atform


def main(repo, out):
    rep = {}
    txt = ('(* GENERATED by tools/cxx_packs.py from clamp.hpp, shuffle.hpp, covariant_cast.hpp -- do not edit.\n'
           '   Regenerated from /repo\'s working tree on every run of a check. *)\n'
           'From Coq Require Import String List.\nFrom Covfie Require Import PackLang.\nImport ListNotations.\nLocal Open Scope string_scope.\n')
    for layer, helper, header in LAYERS:
        elem, atform = translate(repo, layer, helper, header)
        rep[layer] = {'element': elem, 'at': atform}
        txt += f'Definition gen_{layer}_elem : pexp := {elem}.\nDefinition gen_{layer}_at : atform := {atform}.\n'
    os.makedirs(out, exist_ok=True)
    path = os.path.join(out, 'Gen_Packs.v')
    if not os.path.exists(path) or open(path).read() != txt:
        open(path, 'w').write(txt)
    return rep


if __name__ == '__main__':
    print(json.dumps(main(sys.argv[1], sys.argv[2])))
