#!/usr/bin/env python3
"""cxx_tags.py -- the constants and the shape of covfie's binary format, read from clang's AST of the headers:
every backend's IO_MAGIC_HEADER, the global MAGIC_HEADER / MAGIC_FOOTER, the operator and constant that derive a
footer tag from a header tag (in the writer and in the reader), and which backends actually write / check their
tag (call write_io_header / read_io_header + read_io_footer in write_binary / read_binary).  Emits coq/gen/Gen_Tags.v."""
import json, os, subprocess, sys, tempfile
sys.path.insert(0, os.path.dirname(os.path.abspath(__file__)))
import cxx2coq
from purity_scan import HEADERS

INNER = ('owning_data_t', 'non_owning_data_t')


def lit(x):
    if not isinstance(x, dict):
        return None
    if x.get('kind') == 'IntegerLiteral':
        return x.get('value')
    for c in x.get('inner', []):
        r = lit(c)
        if r is not None:
            return r
    return None


def calls(d, acc):
    if not isinstance(d, dict):
        return
    if d.get('kind') in ('DeclRefExpr', 'UnresolvedLookupExpr', 'DependentScopeDeclRefExpr', 'CXXDependentScopeMemberExpr', 'MemberExpr'):
        n = d.get('name') or d.get('member') or d.get('referencedDecl', {}).get('name')
        if n:
            acc.add(n)
    for c in d.get('inner', []):
        calls(c, acc)


def strip(d):
    while isinstance(d, dict) and d.get('kind') in ('ImplicitCastExpr', 'ParenExpr', 'ExprWithCleanups', 'MaterializeTemporaryExpr', 'CXXBindTemporaryExpr') and d.get('inner'):
        d = d['inner'][0]
    return d


def members(d, acc):
    if isinstance(d, dict):
        n = d.get('member') or (d.get('name') if d.get('kind') == 'MemberExpr' else None)
        if n and n.startswith('m_'):
            acc.append(n)
        for c in d.get('inner', []):
            members(c, acc)
    return acc


def declrefs(d, acc):
    if isinstance(d, dict):
        if d.get('kind') == 'DeclRefExpr' and d.get('referencedDecl', {}).get('kind') == 'VarDecl':
            acc.append(d['referencedDecl']['name'])
        for c in d.get('inner', []):
            declrefs(c, acc)
    return acc


def callee_name(call):
    c = strip(call['inner'][0]) if call.get('inner') else {}
    return c.get('name') or c.get('member') or c.get('referencedDecl', {}).get('name') or ('<dependent>' if c.get('kind') == 'DependentScopeDeclRefExpr' else None), c.get('kind')


def io_sequence(fn, which):
    """the top-level statements of a write_binary / read_binary body, classified, in order"""
    body = [c for c in fn.get('inner', []) if c.get('kind') == 'CompoundStmt']
    if not body:
        return None
    out = []
    for st in body[0].get('inner', []):
        s = strip(st)
        k = s.get('kind')
        if k in ('CallExpr', 'CXXMemberCallExpr'):
            n, ck = callee_name(s)
            if n in ('write_io_header', 'read_io_header'):
                out.append('H')
            elif n in ('write_io_footer', 'read_io_footer'):
                out.append('F')
            elif n == 'write' and which == 'write_binary':
                ms = members(s, [])
                out.append('W:' + (ms[0] if ms else '?'))
            elif (n == 'write_binary' or n == '<dependent>') and which == 'write_binary':
                ms = members(s, [])
                out.append('B:' + (ms[-1] if ms else '?'))
            else:
                out.append(f'?:{k}:{n}')
        elif k == 'DeclStmt' and which == 'read_binary':
            for vd in s.get('inner', []):
                init = strip(vd['inner'][0]) if vd.get('inner') else {}
                if vd.get('kind') == 'VarDecl' and init.get('kind') == 'CallExpr':
                    n, ck = callee_name(init)
                    if ck == 'UnresolvedLookupExpr' and n == 'read_binary':
                        out.append('R:' + vd['name'])
                    elif ck in ('DependentScopeDeclRefExpr', 'CXXDependentScopeMemberExpr') or n == 'read_binary':
                        out.append('B:' + vd['name'])
                    else:
                        out.append(f'?:decl:{n}')
                else:
                    out.append(f'?:decl:{vd.get("name")}')
        elif k == 'ReturnStmt' and which == 'read_binary':
            out.append('C:' + ','.join(declrefs(s, [])))
        else:
            out.append(f'?:{k}')
    return out


def scan(repo):
    with tempfile.TemporaryDirectory() as td:
        tu = os.path.join(td, 'tu.cpp')
        open(tu, 'w').write(''.join(f'#include <covfie/core/{h}>\n' for h in HEADERS))
        p = subprocess.run(['clang++', '-std=c++20', '-DNDEBUG', '-I' + os.path.join(repo, 'lib', 'core'), '-fsyntax-only', '-Xclang', '-ast-dump=json',
                            '-Xclang', '-ast-dump-filter=covfie', tu], stdout=subprocess.PIPE, stderr=subprocess.PIPE, text=True, timeout=300)
    docs = cxx2coq.load_docs(p.stdout)
    tags, magic, footer, tagged = {}, {}, {}, {}
    seqs = {}
    seen = set()

    def walk(d, outer, fn):
        if not isinstance(d, dict):
            return
        ident = d.get('id')
        if ident in seen:
            return
        if ident:
            seen.add(ident)
        k, name = d.get('kind'), d.get('name', '')
        if k in ('CXXRecordDecl', 'ClassTemplateDecl') and name and name not in INNER:
            outer = name
        if k in ('FunctionDecl', 'CXXMethodDecl') and name:
            fn = name
            if name in ('write_binary', 'read_binary') and outer:
                acc = set()
                calls(d, acc)
                w, r = tagged.get(outer, (False, False))
                if name == 'write_binary' and 'write_io_header' in acc and 'write_io_footer' in acc:
                    w = True
                if name == 'read_binary' and 'read_io_header' in acc and 'read_io_footer' in acc:
                    r = True
                tagged[outer] = (w, r)
                sq = io_sequence(d, name)
                if sq is not None:
                    seqs.setdefault(outer, {})[name] = sq
        if k == 'CXXMethodDecl' and name == 'dump' and outer == 'field':
            sq = io_sequence(d, 'write_binary')
            if sq is not None:
                seqs.setdefault('field', {})['write_binary'] = sq
        if k == 'CXXConstructorDecl' and outer == 'field' and any(p.get('kind') == 'ParmVarDecl' and 'istream' in p.get('type', {}).get('qualType', '') for p in d.get('inner', [])):
            # field(std::istream & fs) : m_backend(X::read_binary(utility::read_io_header(fs, TAG))) { utility::read_io_footer(fs, TAG); }
            sq = []
            for c in d.get('inner', []):
                if c.get('kind') == 'CXXCtorInitializer':
                    acc = []

                    def order(x):
                        # innermost call first = evaluation order of nested calls
                        if isinstance(x, dict):
                            for y in x.get('inner', []):
                                order(y)
                            if x.get('kind') in ('CallExpr', 'CXXMemberCallExpr'):
                                n, _ = callee_name(x)
                                acc.append(n)
                    order(c)
                    for n in acc:
                        sq.append('H' if n == 'read_io_header' else ('B:' + str(c.get('anyInit', {}).get('name')) if n in ('read_binary', '<dependent>') else f'?:{n}'))
                if c.get('kind') == 'CompoundStmt':
                    for st in c.get('inner', []):
                        s_ = strip(st)
                        n, _ = callee_name(s_) if s_.get('kind') in ('CallExpr', 'CXXMemberCallExpr') else (None, None)
                        sq.append('F' if n == 'read_io_footer' else f'?:{s_.get("kind")}')
            seqs.setdefault('field', {})['read_binary'] = sq
        if k == 'VarDecl' and name == 'IO_MAGIC_HEADER' and outer:
            v = lit(d)
            if v is not None:
                tags[outer] = int(v)
        if k == 'VarDecl' and name in ('MAGIC_HEADER', 'MAGIC_FOOTER'):
            v = lit(d)
            if v is not None:
                magic[name] = int(v)
        if k == 'CompoundAssignOperator' and fn in ('write_io_footer', 'read_io_footer'):
            footer[fn] = (d.get('opcode'), int(lit(d) or -1))
        for c in d.get('inner', []):
            walk(c, outer, fn)
    for d in docs:
        walk(d, None, None)
    # the field class reads/writes its tag in its constructor / dump, not in read_binary / write_binary
    return {'tags': tags, 'magic': magic, 'footer': footer, 'tagged': tagged, 'seqs': seqs}


def main(repo, out):
    rep = scan(repo)
    def zl(items):
        return '[' + '; '.join(f'("{k}", {v})' for k, v in items) + ']'
    fw = rep['footer'].get('write_io_footer', ('?', -1))
    fr = rep['footer'].get('read_io_footer', ('?', -1))
    txt = ('(* GENERATED by tools/cxx_tags.py from the AST of the headers under lib/core/covfie/core -- do not edit.\n'
           '   Regenerated from /repo\'s working tree on every run of a check. *)\n'
           'From Coq Require Import String List ZArith.\nImport ListNotations.\nLocal Open Scope string_scope.\nLocal Open Scope Z_scope.\n'
           f'Definition io_tags : list (string * Z) := {zl(sorted(rep["tags"].items()))}.\n'
           f'Definition io_magic_header : Z := {rep["magic"].get("MAGIC_HEADER", -1)}.\n'
           f'Definition io_magic_footer : Z := {rep["magic"].get("MAGIC_FOOTER", -1)}.\n'
           f'Definition io_footer_writer : string * Z := ("{fw[0]}", {fw[1]}).\n'
           f'Definition io_footer_reader : string * Z := ("{fr[0]}", {fr[1]}).\n'
           '(* backends whose write_binary calls write_io_header and write_io_footer / whose read_binary calls read_io_header and read_io_footer *)\n'
           'Definition io_writes_tag : list string := [' + '; '.join(f'"{k}"' for k, v in sorted(rep['tagged'].items()) if v[0]) + '].\n'
           'Definition io_checks_tag : list string := [' + '; '.join(f'"{k}"' for k, v in sorted(rep['tagged'].items()) if v[1]) + '].\n'
           '(* the top-level statements of every write_binary / read_binary, in order: H header, F footer, W:m = fs.write of member m,\n'
           '   B:m = the backend member m written by its own write_binary; R:x = x read by utility::read_binary<..>, B:x = x read by the\n'
           '   backend\'s read_binary, C:x,y,.. = the variables handed to the constructor in the return statement, ?.. = anything else *)\n'
           'Definition io_write_seq : list (string * list string) := [' + '; '.join(f'("{k}", [' + '; '.join(f'"{i}"' for i in v.get('write_binary', [])) + '])' for k, v in sorted(rep['seqs'].items())) + '].\n'
           'Definition io_read_seq : list (string * list string) := [' + '; '.join(f'("{k}", [' + '; '.join(f'"{i}"' for i in v.get('read_binary', [])) + '])' for k, v in sorted(rep['seqs'].items())) + '].\n')
    os.makedirs(out, exist_ok=True)
    path = os.path.join(out, 'Gen_Tags.v')
    if not os.path.exists(path) or open(path).read() != txt:
        open(path, 'w').write(txt)
    rep['tagged'] = {k: list(v) for k, v in rep['tagged'].items()}
    rep['footer'] = {k: list(v) for k, v in rep['footer'].items()}
    return rep


if __name__ == '__main__':
    print(json.dumps(main(sys.argv[1], sys.argv[2])))
