#!/usr/bin/env python3
"""cxx_arrayio.py -- the reader and writer of the array primitive (backend/primitive/array.hpp) read from clang's JSON AST as
an IO scheme: the top-level statements of read_binary / write_binary classified in order, and for the element loops their nest
and body.

  write_binary:  H ; [width := 4 if float | 8 if double, decided by if constexpr on the stored scalar type] ; W float_width ; W m_size ;
                 for i < o.m_size: for j < vector size: fs.write(&o.m_ptr[i][j], sizeof(scalar)) ; F
  read_binary:   H ; float_width = read<uint32_t> ; if (float_width != 4 && float_width != 8) throw ; size = read<decltype(m_size)> ;
                 ptr = make_unique<vector_t[]>(size) ;
                 for i < size: for j < vector size: if (fw == 4) ptr[i][j] = static_cast<scalar>(read<float>) else if (fw == 8) .. read<double> else throw ;
                 F ; return owning_data_t(size, std::move(ptr))

  cxx_arrayio.py <repo> <out.v>      prints a JSON report"""
import json, os, subprocess, sys, tempfile


def strip(d):
    while isinstance(d, dict) and d.get('kind') in ('ImplicitCastExpr', 'ParenExpr', 'ExprWithCleanups', 'MaterializeTemporaryExpr', 'CXXBindTemporaryExpr', 'ParenListExpr') and d.get('inner') and len(d['inner']) == 1:
        d = d['inner'][0]
    return d


def ref(d):
    d = strip(d)
    return d.get('referencedDecl', {}).get('name') if d.get('kind') == 'DeclRefExpr' else None


def names(d, acc):
    if isinstance(d, dict):
        n = d.get('name') or d.get('member')
        if n and d.get('kind') in ('UnresolvedLookupExpr', 'DeclRefExpr', 'CXXDependentScopeMemberExpr', 'MemberExpr', 'DependentScopeDeclRefExpr'):
            acc.append(n)
        if d.get('kind') == 'DeclRefExpr':
            acc.append(d.get('referencedDecl', {}).get('name'))
        t = d.get('type', {}).get('qualType', '')
        for w in ('float', 'double', 'uint32_t'):
            if d.get('kind') in ('CXXStaticCastExpr', 'CXXUnresolvedConstructExpr', 'UnaryExprOrTypeTraitExpr') and w == t:
                acc.append('type:' + w)
        for c in d.get('inner', []):
            names(c, acc)
    return acc


def text_of(d, text):
    b, e = d.get('range', {}).get('begin', {}), d.get('range', {}).get('end', {})
    b, e = b.get('expansionLoc', b), e.get('expansionLoc', e)
    return text[b['offset']:e['offset'] + e.get('tokLen', 1)] if 'offset' in b and 'offset' in e else ''


def for_parts(st):
    if st.get('kind') != 'ForStmt':
        return None
    init, _, cond, inc, body = st['inner']
    vd = init['inner'][0] if init.get('kind') == 'DeclStmt' else {}
    c = strip(cond)
    if not (vd.get('kind') == 'VarDecl' and strip(vd['inner'][0]).get('value') == '0' and c.get('kind') == 'BinaryOperator' and c.get('opcode') == '<' and ref(c['inner'][0]) == vd.get('name')):
        return None
    return vd['name'], c['inner'][1], body


def classify_write(st, text):
    s = strip(st)
    k = s.get('kind')
    ns = names(s, [])
    src = text_of(s, text)
    if k in ('CallExpr', 'CXXMemberCallExpr'):
        if 'write_io_header' in ns:
            return 'H'
        if 'write_io_footer' in ns:
            return 'F'
        if 'write' in ns and 'float_width' in ns and 'o' not in ns:
            return 'W:float_width'
        if 'write' in ns and 'm_size' in ns and 'm_ptr' not in ns:
            return 'W:m_size'
    if k == 'DeclStmt' and [v.get('name') for v in s.get('inner', [])] == ['float_width'] and 'uint32_t' in s['inner'][0].get('type', {}).get('qualType', ''):
        return 'DeclWidth'
    if k == 'IfStmt' and s.get('isConstexpr'):
        # if constexpr (is_same_v<scalar, float>) float_width = 4; else if constexpr (is_same_v<scalar, double>) float_width = 8; else throw
        flat = ' '.join(src.split())
        if ('is_same_v<typename _output_vector_t::type, float>' in flat.replace('< ', '<').replace(' >', '>').replace('std:: is_same_v', 'std::is_same_v') or 'float>' in flat) and 'float_width = 4' in flat and 'float_width = 8' in flat and flat.index('float_width = 4') < flat.index('float_width = 8') and 'double>' in flat and 'throw' in flat:
            return 'WidthOfType'
        return '?:if-constexpr'
    fp = for_parts(s)
    if fp:
        v1, b1, body1 = fp
        inner = body1.get('inner', []) if body1.get('kind') == 'CompoundStmt' else [body1]
        fp2 = for_parts(strip(inner[0])) if len(inner) == 1 else None
        if fp2 and 'm_size' in names(b1, []):
            v2, b2, body2 = fp2
            st2 = body2.get('inner', []) if body2.get('kind') == 'CompoundStmt' else [body2]
            flat = ' '.join(text_of(strip(st2[0]), text).split()) if len(st2) == 1 else ''
            if 'size' in names(b2, []) + [text_of(strip(b2), text)[-4:]] and f'&o.m_ptr[{v1}][{v2}]' in flat.replace(' ', '') and 'sizeof(typename_output_vector_t::type)' in flat.replace(' ', '') and 'fs.write' in flat:
                return 'WriteElements'
        return '?:loop'
    return f'?:{k}'


def classify_read(st, text):
    s = strip(st)
    k = s.get('kind')
    ns = names(s, [])
    flat = ' '.join(text_of(s, text).split())
    if k in ('CallExpr', 'CXXMemberCallExpr'):
        if 'read_io_header' in ns:
            return 'H'
        if 'read_io_footer' in ns:
            return 'F'
    if k == 'DeclStmt':
        vs = [v.get('name') for v in s.get('inner', [])]
        if vs == ['float_width'] and 'read_binary<uint32_t>(fs)' in flat.replace(' ', ''):
            return 'R:float_width'
        if vs == ['size'] and 'read_binary<std::decay_t<decltype(m_size)>>(fs)' in flat.replace(' ', ''):
            return 'R:size'
        if vs == ['ptr'] and 'make_unique<vector_t[]>(size)' in flat.replace(' ', ''):
            return 'Alloc'
    if k == 'IfStmt' and not s.get('isConstexpr'):
        c = flat.replace(' ', '')
        if c.startswith('if(float_width!=4&&float_width!=8){throw'):
            return 'WidthCheck'
        return '?:if'
    fp = for_parts(s)
    if fp:
        v1, b1, body1 = fp
        inner = body1.get('inner', []) if body1.get('kind') == 'CompoundStmt' else [body1]
        fp2 = for_parts(strip(inner[0])) if len(inner) == 1 else None
        if fp2 and ref(b1) == 'size':
            v2, b2, body2 = fp2
            c = ' '.join(text_of(body2, text).split()).replace(' ', '')
            want4 = f'if(float_width==4){{ptr[{v1}][{v2}]=static_cast<scalar_t>(utility::read_binary<float>(fs));}}'
            want8 = f'elseif(float_width==8){{ptr[{v1}][{v2}]=static_cast<scalar_t>(utility::read_binary<double>(fs));}}'
            if want4 in c and want8 in c and c.index(want4) < c.index(want8) and 'else{throw' in c and 'usingscalar_t=typename_output_vector_t::type;' in c and '_output_vector_t::size' in text_of(strip(b2), text).replace(' ', ''):
                return 'ReadElements'
        return '?:loop'
    if k == 'ReturnStmt':
        if flat.replace(' ', '').rstrip(';') == 'returnowning_data_t(size,std::move(ptr))':
            return 'C:size,ptr'
        return '?:return'
    return f'?:{k}'


def main(repo, out):
    hdr = 'covfie/core/backend/primitive/array.hpp'
    text = open(os.path.join(repo, 'lib', 'core', hdr), 'rb').read().decode('utf-8', 'replace')
    with tempfile.TemporaryDirectory() as td:
        tu = os.path.join(td, 'tu.cpp')
        open(tu, 'w').write(f'#include <{hdr}>\n')
        p = subprocess.run(['clang++', '-std=c++20', '-DNDEBUG', '-I' + os.path.join(repo, 'lib', 'core'), '-fsyntax-only', '-Xclang', '-ast-dump=json',
                            '-Xclang', '-ast-dump-filter=covfie::backend::array', tu], stdout=subprocess.PIPE, stderr=subprocess.PIPE, text=True, timeout=180)
    txt, dec, i, objs = p.stdout, json.JSONDecoder(), 0, []
    while i < len(txt):
        while i < len(txt) and txt[i].isspace():
            i += 1
        if i >= len(txt):
            break
        o, j = dec.raw_decode(txt, i)
        objs.append(o)
        i = j
    fns = {'read_binary': [], 'write_binary': []}

    def find(d):
        if isinstance(d, dict):
            if d.get('kind') == 'CXXMethodDecl' and d.get('name') in fns and any(c.get('kind') == 'CompoundStmt' for c in d.get('inner', [])):
                fns[d['name']].append(d)
            for c in d.get('inner', []):
                find(c)
    for o in objs:
        find(o)
    rep = {'problems': []}
    seqs = {}
    for name, cls in (('write_binary', classify_write), ('read_binary', classify_read)):
        if len(fns[name]) != 1:
            rep['problems'].append(f'{len(fns[name])} definitions of array::owning_data_t::{name}')
            seqs[name] = ['?:missing']
            continue
        body = [c for c in fns[name][0]['inner'] if c.get('kind') == 'CompoundStmt'][0].get('inner', [])
        try:
            seqs[name] = [cls(st, text) for st in body]
        except Exception as ex:
            rep['problems'].append(f'{name}: {type(ex).__name__}: {ex}')
            seqs[name] = ['?:error']
    rep.update(seqs)
    txt = ('(* GENERATED by tools/cxx_arrayio.py from backend/primitive/array.hpp -- do not edit. *)\nFrom Coq Require Import String List.\nImport ListNotations.\nLocal Open Scope string_scope.\n\n'
           'Definition arrayio_write : list string := [' + '; '.join(f'"{x}"' for x in seqs['write_binary']) + '].\n'
           'Definition arrayio_read : list string := [' + '; '.join(f'"{x}"' for x in seqs['read_binary']) + '].\n'
           f'Definition arrayio_problems : nat := {len(rep["problems"])}.\n')
    os.makedirs(os.path.dirname(out), exist_ok=True)
    open(out, 'w').write(txt)
    return rep


if __name__ == '__main__':
    print(json.dumps(main(sys.argv[1], sys.argv[2])))
