#!/usr/bin/env python3
"""make_golden.py -- (re)write /verif/golden: one dump per serialisable layer arrangement, written by
the implementation in /repo as it is NOW, with the contents recorded in golden/manifest.json.
Run once per pinned revision; the files are committed and never rewritten by the checks."""
import json, os, sys
sys.path.insert(0, os.path.dirname(os.path.dirname(os.path.abspath(__file__))))
from vlib import core, stacks
from props import stack_common as sc

GOLDEN_STACKS = [
    'array.1.f32', 'array.3.f64', 'constant.1.f32.1.f32', 'constant.2.u64.3.f32', 'constant.1.i32.2.i32', 'identity.1.f32', 'identity.3.u64',
    'strided.1.u64/array.1.f32', 'strided.2.u64/array.3.f32', 'strided.3.u64/array.3.f64', 'strided.2.i32/array.2.f64',
    'morton.2.u64.b/array.1.f32', 'morton.3.u64.p/array.3.f64', 'hilbert.u64/array.2.f64',
    'clamp/identity.2.i32', 'clamp/strided.2.u64/array.1.f32', 'backup/identity.2.f32', 'backup/strided.2.u64/array.3.f32', 'backup/constant.2.i32.3.f64',
    'affine/identity.2.f32', 'affine/identity.3.f64', 'shuffle.2-0-1/strided.3.u64/array.1.f32', 'cast.f64/strided.2.u64/array.2.f32',
    'deref/morton.2.u64.b/array.1.f64', 'linear.f32/strided.3.u64/array.3.f32', 'nearest.f64/strided.2.u64/array.1.f64',
    'affine/linear.f32/strided.3.u64/array.3.f32', 'clamp/affine/linear.f32/strided.2.u64/array.1.f32',
    'backup/affine/nearest.f32/clamp/strided.2.u64/array.1.f32', 'cast.f64/deref/nearest.f32/shuffle.1-0/strided.2.u64/array.3.f32',
]


def main():
    chk = core.Check('C07')
    r = core.Rng(20260926)
    runner = sc.StackRunner(chk, 'iog', GOLDEN_STACKS, configs=('rel',))
    assert not runner.failed, runner.failed
    os.makedirs(os.path.join(core.VERIF, 'golden'), exist_ok=True)
    fields = [(n, sc.rand_field(r, n, max_extent=3, data_mode='any', cfg_mode='nice')) for n in GOLDEN_STACKS]
    lines = [f'{i} {n} new 0 ' + ' '.join(map(str, t)) + ' | cfg 0 | sto 0 | dump 0' for i, (n, t) in enumerate(fields)]
    model, impl = runner.run(lines)
    man = []
    for i, (n, t) in enumerate(fields):
        a = impl['rel'][str(i)]
        parts = a.split(' | ')
        assert parts[0] == 'OK' and parts[3].startswith('B '), a
        assert model.get(str(i)) == a, (n, a, model.get(str(i)))
        fn = f'{i:02d}_' + n.replace('/', '__') + '.covfie'
        hexs = parts[3][2:]
        open(os.path.join(core.VERIF, 'golden', fn), 'wb').write(bytes.fromhex('' if hexs == '-' else hexs))
        man.append({'file': fn, 'stack': n, 'tokens': t, 'cfg': parts[1], 'sto': parts[2]})
    json.dump(man, open(os.path.join(core.VERIF, 'golden', 'manifest.json'), 'w'), indent=1)
    print('wrote', len(man), 'golden files')


if __name__ == '__main__':
    main()
